"""C16 - chunkings tile the sample axis exactly once.

Decided (sym: proto walk of the generators with normal-form comparisons, loops unrolled 0..2 times, which
exercises the transition first-chunk -> loop-chunk -> loop-chunk -> last-chunk):
  S1  chunk_bounds: first chunk starts at 0 and keeps from 0; each later kept part starts where the previous kept
      part ended; each chunk starts at (previous end - overlap); the chunk produced after the loop ends and keeps up
      to n_samples; no chunk is longer than chunk_size; kept part inside the chunk (sign facts; undecided when the
      sign cannot be derived)
  S2  excerpts: at most one excerpt per index < n_excerpts, start(i+1) >= end(i), end - start <= excerpt_size,
      end <= n_samples, start < n_samples; get_excerpts returns the whole data when it is shorter than requested;
      data_chunk slices with the kept bounds unless the overlap is requested
  P1  reader.iter_chunks yields consecutive pairs of chunk_bounds in order
  P2  compressed reader's batch iterator (cache on and off): the first interval starts at bound 0; the end bound of batch b
      equals the start bound of batch b+1 (inductive step over a symbolic batch index and batch size, max/min resolved
      under batch_size * (b + 1) < n_chunks); start <= end; the interval yielded after the loop is the single chunk that
      follows the last batch and ends at bound n_chunks (given batch_size * L < n_chunks <= batch_size * (L + 1))
  S3  _get_chunk_bounds: after every part the last bound equals the running total, bounds start at 0 and the
      regular grid inside a part has step chunk_size
  +   on every path the last kept part reaches n_samples under the comparisons decided on that path (an early return after the first chunk is caught)
  +   S2: an excerpt loop bounded by the data length only (`range(a, n_samples, step)`) is a recognised wrong form
Not decided: mtscomp's own chunk table and decoder; gaps for particular residues; strictness of increase.
"""
import ast

from vlib import q, proto
from vlib.proto import C, T, is_c, is_t, show
from vlib.symwalk import SymInterp
from vlib.sym import Lin, equal
from vlib.pat import Pat, returned
from vlib.front import unparse, dotted, const_value, AnchorMissing

A = 'phylib/io/array.py'
TR = 'phylib/io/traces.py'
FLOOR = 4          # decided obligations below this = the analysis lost its footing (exit 2); clean tree: 10
RULES = ('C16.P1', 'C16.P2', 'C16.S1', 'C16.S2', 'C16.S3')          # every obligation group must report (holds / violated / undecided): a group that vanishes silently is an analysis error
EXPLANATION = ('sym engine: the generators chunk_bounds / excerpts are walked path by path (loop unrolled 0..2 times, every outcome '
               'of every comparison), each yielded tuple is a symbolic term over the parameters; chain equalities between consecutive '
               'yields and bounds are decided by equality / sign of linear normal forms (max/min/floor-division as interpreted atoms)')
TRUSTED = ['python ast', 'normal-form rewriting of vlib/sym.py', 'preconditions chunk_size > 0, 0 <= overlap, excerpt_size > 0', 'mtscomp: n_batches = ceil(n_chunks / batch_size), batch_size >= 1, n_chunks >= 1']
ASSUMPTIONS = ['chunk_size > 0 and 0 <= overlap < chunk_size', 'n_excerpts >= 2, excerpt_size > 0']


def yields_of(st):
    return [e[1] for e in st.trace if e[0] == 'yield']


def _path_facts(st, nf):
    """the comparisons decided on a path as forms known to be >= 0 (integers: a < b gives b - a - 1 >= 0)"""
    extra = []
    for key, rel_ in st.facts.items():
        if isinstance(key, tuple) and key and key[0] == 'rel' and rel_ in ('<', '=', '>'):
            try:
                dl = nf(key[2]) - nf(key[1])          # b - a
            except Exception:
                continue
            if rel_ == '<':
                extra.extend([dl - Lin.const(1), dl])          # the weak form too: the sign rules decompose a sum into known forms syntactically
            elif rel_ == '>':
                extra.extend([-dl - Lin.const(1), -dl])
            else:
                extra.extend([dl, -dl])
    return extra


def _consistent(st, nf):
    """False when two comparisons taken on the path compare the same quantities (equal normal forms of b - a) with incompatible outcomes: the walk forks on
    syntactically different terms (`i * s + s` vs `(i + 1) * s`), so such a path is not a path of the program."""
    seen = {}
    for key, rel_ in st.facts.items():
        if isinstance(key, tuple) and key and key[0] == 'rel' and rel_ in ('<', '=', '>'):
            try:
                dl = nf(key[2]) - nf(key[1])
            except Exception:
                continue
            for form, r in ((str(dl), rel_), (str(-dl), {'<': '>', '>': '<', '=': '='}[rel_])):
                if seen.setdefault(form, r) != r:
                    return False
    return True


def _jointly_consistent(I, base, st, nf):
    """False when one comparison taken on the path is refuted by the others (each fact is tested against the forms the remaining facts make non-negative)."""
    rels = [(key, rel_) for key, rel_ in st.facts.items() if isinstance(key, tuple) and key and key[0] == 'rel' and rel_ in ('<', '=', '>')]
    saved = I.nonneg
    try:
        for key, rel_ in rels:
            try:
                dl = nf(key[2]) - nf(key[1])
            except Exception:
                continue

            class _S:
                facts = {k_: v_ for k_, v_ in rels if k_ is not key}
            I.nonneg = list(base) + _path_facts(_S, nf)
            if rel_ == '<' and I.ge0(-dl):
                return False
            if rel_ == '>' and I.ge0(dl):
                return False
            if rel_ == '=' and (I.sign(dl) == '+' or I.sign(-dl) == '+'):
                return False
    finally:
        I.nonneg = saved
    return True


def s1_chunk_bounds(ctx):
    fi = ctx.repo.func(A, 'chunk_bounds')
    n, cs, ov = (T('param', p) for p in fi.params[:3])
    I = SymInterp(ctx.repo, unroll=ctx.bound(2, 3), pos=[cs, T('Sub', cs, ov)], nonneg=[ov, n])
    I.range_loops = True
    outs = I.run(fi)
    ctx.analysed['paths'] += len(outs)
    nf = I.nf
    probs, und = {}, {}
    n_paths = n_y = 0
    for kind, val, st in outs:
        if kind != 'return':
            continue
        ys = yields_of(st)
        if not ys:
            probs.setdefault('a path of chunk_bounds yields nothing', 1)
            continue
        n_paths += 1
        tup = []
        for y in ys:
            if not (is_t(y) and y[1] == 'tuple' and len(y) == 6):
                probs.setdefault('chunk_bounds yields %s, not (s_start, s_end, keep_start, keep_end)' % show(y)[:60], 1)
                tup = None
                break
            tup.append([nf(x) for x in y[2:]])
        if not tup:
            continue
        n_y += len(tup)
        N, CS, OV = nf(n), nf(cs), nf(ov)
        s0, e0, k0, ke0 = tup[0]
        if not s0.is_zero() or not k0.is_zero():
            probs.setdefault('the first chunk is (%s, %s, %s, %s): it does not start / keep from sample 0' % (s0, e0, k0, ke0), 1)
        for j in range(1, len(tup)):
            ps, pe, pk, pke = tup[j - 1]
            s, e, k, ke = tup[j]
            if not equal(k, pke):
                probs.setdefault('kept part of chunk %d starts at %s but the previous kept part ended at %s: samples are %s' %
                                 (j, k, pke, 'duplicated or missing'), 1)
            sg = I.sign(s - pe)
            if sg in ('+',) or (sg == '>=0' and I.can_exceed_zero(s - pe)):
                probs.setdefault('chunk %d starts at %s, after the end %s of the previous chunk: samples between them are in no chunk' % (j, s, pe), 1)
        for j, (s, e, k, ke) in enumerate(tup):
            # chunk length
            d = e - s - CS
            sg = I.sign(d)
            last_form = equal(e, N)
            if sg == '+' or (sg == '>=0' and I.can_exceed_zero(d)):
                probs.setdefault('chunk %d has length %s, which exceeds chunk_size for some overlap' % (j, e - s), 1)
            elif sg is None and last_form:
                # the chunk after the loop: its length is bounded only through the loop's EXIT condition - the comparisons decided on this path are the assumptions
                extra = _path_facts(st, nf)
                saved = list(I.nonneg)
                I.nonneg = saved + extra
                try:
                    ok_len = I.ge0(-d)
                finally:
                    I.nonneg = saved
                if ok_len:
                    pass
                elif I.interpreted(d):
                    probs.setdefault('the last chunk has length %s, which is not bounded by chunk_size under the exit condition of the loop: for some (length, chunk size, overlap) it '
                                     'holds more than chunk_size samples' % (e - s), 1)
                else:
                    und.setdefault('length of the last chunk (%s) not comparable with chunk_size' % (e - s), 1)
            elif sg is None and not last_form:
                und.setdefault('length of chunk %d (%s) not comparable with chunk_size' % (j, e - s), 1)
            # the chunk starts inside the data (a negative start would wrap around when the data is sliced)
            sg0 = I.sign(s)
            if sg0 == '-' or (sg0 is None and I.interpreted(s)):
                probs.setdefault('chunk %d starts at %s, which is negative for some inputs (data shorter than the overlap): slicing the data with it wraps around' % (j, s), 1)
            elif sg0 is None:
                und.setdefault('sign of the start %s of chunk %d unknown' % (s, j), 1)
            # kept part inside the chunk
            for what, dd in (('keep_start - s_start', k - s), ('s_end - keep_end', e - ke)):
                sg = I.sign(dd)
                if sg == '-' or (sg == '<=0' and I.can_exceed_zero(-dd)):
                    probs.setdefault('chunk %d: %s = %s < 0 for some overlap, the kept part leaves the chunk' % (j, what, dd), 1)
                elif sg is None:
                    und.setdefault('chunk %d: sign of %s = %s unknown' % (j, what, dd), 1)
        # the chunk produced after the loop (its s_end is n_samples) keeps up to n_samples
        s, e, k, ke = tup[-1]
        if equal(e, N) and not equal(ke, N):
            probs.setdefault('the last chunk ends at n_samples but keeps only up to %s' % ke, 1)
        # on EVERY path the kept parts reach the end of the data: keep_end of the last yielded chunk >= n_samples under the comparisons decided on this path
        if not equal(ke, N):
            extra = _path_facts(st, nf)
            saved = list(I.nonneg)
            I.nonneg = saved + extra
            try:
                reaches = I.ge0(ke - N)
            finally:
                I.nonneg = saved
            if not reaches and I.interpreted(ke - N) and all(I.interpreted(x) for x in extra):
                probs.setdefault('on a path the last kept part ends at %s, which is below n_samples for some inputs allowed by the tests taken on that path: the samples after it are in no kept part' % ke, 1)
            elif not reaches:
                und.setdefault('end of the last kept part (%s) not comparable with n_samples' % ke, 1)
        post = [st2 for st2 in [st] if True]
    # the statement after the loop must yield a chunk ending at n_samples on the path where it yields
    finals = [tuple(yields_of(st)[-1:]) for kind, val, st in outs if kind == 'return']
    any_final = any(is_t(y[0]) and equal(I.nf(y[0][3]), I.nf(n)) for y in finals if y)
    if not any_final:
        probs.setdefault('no path of chunk_bounds ends with a chunk whose end is n_samples: the tail of the data is never covered', 1)
    if probs:
        for msg in list(probs)[:4]:
            ctx.violated('C16.S1', fi, msg[:150], msg)
    else:
        ctx.holds('C16.S1', fi, 'yield chain of chunk_bounds: starts at 0, keep_start(k+1) == keep_end(k), no gap between chunks, '
                  'length <= chunk_size, last chunk keeps up to n_samples (%d paths, %d yielded chunks)' % (n_paths, n_y), 'chunk_bounds')
    for msg in list(und)[:3]:
        ctx.undecided('C16.S1', fi, msg)


class ExInterp(SymInterp):
    def for_elements(self, s, itv, st):
        # a symbolic range(k): two consecutive generic iterations i, i+1
        if is_t(itv) and itv[1] == 'call' and itv[2] == 'range' and len(itv) == 5:
            i = T('i')
            return [[i, T('Add', i, C(1))], [i], []]
        return super().for_elements(s, itv, st)


def s2_excerpts(ctx):
    repo = ctx.repo
    fi = repo.func(A, 'excerpts')
    n, k, size = (T('param', p) for p in fi.params[:3])
    I = ExInterp(repo, unroll=ctx.bound(2, 3), inline_depth=2, pos=[size], nonneg=[n, T('i')])
    try:
        I.inline.add(repo.func(A, '_excerpt_step').node)        # the step helper, when it exists (it may have been merged into its only caller)
    except AnchorMissing:
        pass
    outs = I.run(fi)
    ctx.analysed['paths'] += len(outs)
    nf = I.nf
    probs, und = {}, {}
    pairs = 0
    base_nonneg = list(I.nonneg)
    for kind, val, st in outs:
        if kind != 'return':
            continue
        ys = yields_of(st)
        ts = []
        for y in ys:
            if not (is_t(y) and y[1] == 'tuple' and len(y) == 4):
                probs.setdefault('excerpts yields %s, not (start, end)' % show(y)[:50], 1)
                continue
            ts.append((nf(y[2]), nf(y[3])))
        if not _consistent(st, nf) or not _jointly_consistent(I, base_nonneg, st, nf):
            continue
        # the comparisons taken on this path bound the yielded values as min() / max() do (`if n_samples < end: end = n_samples`)
        I.nonneg = base_nonneg + _path_facts(st, nf)
        for (s, e) in ts:
            pairs += 1
            for what, d, bad in (('end - start - excerpt_size', e - s - nf(size), '+'), ('end - n_samples', e - nf(n), '+')):
                sg = I.sign(d)
                if I.ge0(-d):
                    continue
                if sg == bad:
                    probs.setdefault('%s = %s > 0' % (what, d), 1)
                elif sg is None and I.interpreted(d):
                    probs.setdefault('%s = %s is not bounded above by 0 (the formula is exact and no bound by min(...) or a guard applies)' % (what, str(d)[:200]), 1)
                elif sg is None:
                    und.setdefault('sign of %s = %s unknown' % (what, d), 1)
            # start < n_samples must be a fact of the path (the loop leaves when start >= n_samples)
        if len(ts) == 2:
            (s1, e1), (s2, e2) = ts
            d = s2 - e1
            sg = I.sign(d)
            if sg == '-':
                probs.setdefault('consecutive excerpts overlap: start(i+1) - end(i) = %s < 0' % d, 1)
            elif sg is None and I.interpreted(d):
                probs.setdefault('consecutive excerpts can overlap: start(i+1) - end(i) = %s has no lower bound 0 (the step is not bounded below by excerpt_size)' % str(d)[:200], 1)
            elif sg is None:
                und.setdefault('start(i+1) - end(i) = %s: sign unknown' % d, 1)
            if I.sign(s2 - s1) not in ('+', '>=0'):
                und.setdefault('start(i+1) - start(i) = %s: sign unknown' % (s2 - s1), 1)
    I.nonneg = base_nonneg
    # in-bounds start: every yield is dominated by the negation of `start >= n_samples`
    guard_ok = False
    for y in fi.yields():
        for a in fi.ancestors(y):
            if isinstance(a, ast.For):
                pre = []
                for stmt in a.body:
                    if q.contains(stmt, y):
                        break
                    pre.append(stmt)
                for stmt in pre:
                    if isinstance(stmt, ast.If) and stmt.body and isinstance(stmt.body[-1], (ast.Break, ast.Return, ast.Continue)):
                        c = q.simple_compare(stmt.test)
                        if c and c[1] in ('>=', '>') and unparse(c[2]) == fi.params[0]:
                            guard_ok = True
                        if c and c[1] in ('<=', '<') and unparse(c[0]) == fi.params[0]:
                            guard_ok = True
    if not guard_ok:
        und.setdefault('no `start >= n_samples` exit found before the yield', 1)
    # at most one excerpt per index: the yield is not inside an inner loop
    inner = any(isinstance(a, (ast.For, ast.While)) for y in fi.yields() for a in list(fi.ancestors(y))[1:] if not isinstance(a, ast.FunctionDef)
                and sum(isinstance(b, (ast.For, ast.While)) for b in fi.ancestors(y)) > 1)
    loops = [f for f in fi.nodes(ast.For)]
    def bounded(e, depth=0):
        """True: at most n_excerpts items; False: recognisably more / unbounded; None: not recognised."""
        e = fi.expand(e)
        f_ = (dotted(e.func) or '').split('.')[-1] if isinstance(e, ast.Call) else None
        if f_ == 'range':
            if Pat().any(['range(%s)' % fi.params[1], 'range(0, %s)' % fi.params[1], 'range(0, %s, 1)' % fi.params[1]], e):
                return True
            if Pat().any(['range(%s + E_c)' % fi.params[1], 'range(E_c * %s)' % fi.params[1], 'range(%s)' % fi.params[0], 'range(E_a, %s, E_s)' % fi.params[0], 'range(E_a, %s)' % fi.params[0],
                          'range(E_a, %s + E_c, E_s)' % fi.params[0], 'range(E_a, %s - E_c, E_s)' % fi.params[0]], e):
                return False          # bounded by the DATA LENGTH only: as many excerpts as steps fit, whatever n_excerpts says
            return None
        if f_ in ('count', 'cycle', 'repeat'):
            return False
        if depth < 4 and f_ in ('takewhile', 'filter') and len(e.args) == 2:
            return bounded(e.args[1], depth + 1)
        if depth < 4 and f_ in ('islice', 'enumerate', 'list', 'tuple', 'iter', 'reversed') and e.args:
            return bounded(e.args[0], depth + 1)
        if depth < 4 and isinstance(e, (ast.GeneratorExp, ast.ListComp)) and len(e.generators) == 1:
            return bounded(e.generators[0].iter, depth + 1)
        return None
    cnt = bounded(loops[0].iter) if loops else None
    count_ok = cnt is True and not inner
    if probs:
        for msg in list(probs)[:3]:
            ctx.violated('C16.S2', fi, msg[:150], 'excerpts: ' + msg)
    elif not pairs:
        ctx.undecided('C16.S2', fi, 'excerpts: no yielded (start, end) pair could be followed (the pairs are not produced by a yield in a loop over the excerpt index)')
    else:
        ctx.holds('C16.S2', fi, 'excerpts: end - start <= excerpt_size, end <= n_samples, start(i+1) >= end(i) (%d yielded pairs over all paths)' % pairs, 'excerpts')
    if count_ok:
        ctx.holds('C16.S2', fi, 'one excerpt at most for each index in range(n_excerpts)', loops[0].iter)
    elif loops and (cnt is False or (cnt is True and inner)):
        ctx.violated('C16.S2', fi, loops[0].iter, 'the number of excerpts is not bounded by n_excerpts')
    elif not loops:
        ctx.undecided('C16.S2', fi, 'excerpts has no loop over the excerpt index: the number of excerpts is not decided')
    else:
        ctx.undecided('C16.S2', fi, 'the iterable of the excerpt loop `%s` was not recognised' % unparse(loops[0].iter)[:60], loops[0].iter)
    for msg in list(und)[:3]:
        ctx.undecided('C16.S2', fi, msg)
    # get_excerpts: whole data when shorter
    ge = repo.func(A, 'get_excerpts')
    data, ne, es = ge.params[:3]
    short = [i for i in ge.nodes(ast.If) if Pat().any(['len(%s) < %s * %s' % (data, ne, es), 'len(%s) <= %s * %s' % (data, ne, es), '%s.shape[0] < %s * %s' % (data, ne, es),
                                                      '%s.shape[0] <= %s * %s' % (data, ne, es)], ge.expand(i.test))]
    if short:
        whole = bool(short[0].body) and isinstance(short[0].body[0], ast.Return) and short[0].body[0].value is not None and Pat().m(data, ge.expand(short[0].body[0].value))
        if whole:
            ctx.holds('C16.S2', ge, 'get_excerpts returns the whole data when it is shorter than n_excerpts * excerpt_size', short[0].test)
        else:
            ctx.violated('C16.S2', ge, short[0], 'get_excerpts does not return the whole data when it is shorter than requested')
    else:
        cmp_any = [i for i in ge.nodes(ast.If) if 'len(%s)' % data in unparse(ge.expand(i.test)) or '%s.shape' % data in unparse(ge.expand(i.test))]
        def disjuncts(t_):
            t_ = ge.expand(t_)
            return list(t_.values) if isinstance(t_, ast.BoolOp) and isinstance(t_.op, ast.Or) else [t_]
        weak = [i for i in cmp_any if any(Pat().any(['len(%s) < %s' % (data, es), 'len(%s) <= %s' % (data, es), 'len(%s) < %s' % (data, ne), 'len(%s) <= %s' % (data, ne),
                                                       'len(%s) < %s + %s' % (data, ne, es), 'len(%s) == 0' % data], d_) for d_ in disjuncts(i.test)) and
                not any('%s * %s' % (ne, es) in unparse(d_) or '%s * %s' % (es, ne) in unparse(d_) for d_ in disjuncts(i.test))]
        if weak:
            ctx.violated('C16.S2', ge, weak[0].test, 'the whole data is returned only when `%s`: data shorter than n_excerpts * excerpt_size but longer than that is cut into excerpts' % unparse(weak[0].test))
        elif cmp_any:
            ctx.undecided('C16.S2', ge, 'short-data test `%s` not recognised' % unparse(cmp_any[0].test), cmp_any[0].test)
        else:
            ctx.violated('C16.S2', ge, 'get_excerpts', 'get_excerpts does not return the whole data when it is shorter than requested (no test on the data length)')
    # data_chunk: kept bounds by default
    dc = repo.func(A, 'data_chunk')
    I2 = SymInterp(repo, unroll=1)
    chunk = T('tuple', T('a'), T('b'), T('c'), T('d'))
    outs = I2.run(dc, env={dc.params[1]: chunk, dc.params[2]: C(False)}, facts={})
    good = [val for kind, val, st in outs if kind == 'return']
    want = 'slice(index(param(%s)' % dc.params[0]
    ok = bool(good) and all(is_t(v) and v[1] == 'index' and v[2] == T('param', dc.params[0]) for v in good)
    bounds = []
    for v in good:
        sl = [x for x in proto.subterms(v) if is_t(x) and x[1] == 'slice3']
        if is_t(v) and v[1] == 'index' and v[2] == T('param', dc.params[0]) and sl:
            bounds.append((sl[0][2], sl[0][3]))
        else:
            bounds.append(None)
    if not bounds or any(b is None for b in bounds):
        ctx.undecided('C16.S2', dc, 'data_chunk: the returned slice of the data was not recognised')
    elif all(b == (T('c'), T('d')) for b in bounds):
        ctx.holds('C16.S2', dc, 'data_chunk(data, (s_start, s_end, keep_start, keep_end)) slices data[keep_start:keep_end] by default', 'data_chunk')
    elif all(set(b) <= {T('a'), T('b'), T('c'), T('d')} for b in bounds):
        ctx.violated('C16.S2', dc, 'data_chunk', 'data_chunk does not slice with the kept bounds by default (bounds used: %s of (s_start=a, s_end=b, keep_start=c, keep_end=d))' %
                     [(show(a), show(b)) for a, b in bounds][:2])
    else:
        ctx.undecided('C16.S2', dc, 'data_chunk: slice bounds %s not recognised' % [(show(a), show(b)) for a, b in bounds][:2])


def p1_iter_chunks(ctx):
    repo = ctx.repo
    fi = repo.func(TR, 'BaseEphysReader.iter_chunks')
    verdict, node = None, None          # True holds / False violated / None not recognised
    B = 'self.chunk_bounds'
    for f in fi.nodes(ast.For):
        P = Pat(fi)
        ys = [y for y in fi.yields() if q.contains(f, y)]
        if len(ys) != 1 or not (isinstance(ys[0].value, ast.Tuple) and len(ys[0].value.elts) == 2):
            continue
        node = f
        y0, y1 = (fi.expand(e) for e in ys[0].value.elts)
        it = fi.expand(f.iter)
        if P.m('zip(E_a, E_b)', it) and isinstance(f.target, ast.Tuple) and len(f.target.elts) == 2 and all(isinstance(x, ast.Name) for x in f.target.elts):
            t0, t1 = f.target.elts[0].id, f.target.elts[1].id
            straight = Pat().m(t0, y0) and Pat().m(t1, y1)
            swapped = Pat().m(t1, y0) and Pat().m(t0, y1)
            # both operands are constant slices of the bounds: operand t-th item = b[lo + step * t]; the pairs are (b[t], b[t+1]) for t = 0..n-2 exactly when
            # the slices are b[0 or None : None or -1 : 1] and b[1 : None : 1] (zip stops at the shorter operand)
            def sl(e):
                if Pat().m(B, e):
                    return (None, None, None)
                if isinstance(e, ast.Subscript) and Pat().m(B, e.value) and isinstance(e.slice, ast.Slice):
                    out = []
                    for p_ in (e.slice.lower, e.slice.upper, e.slice.step):
                        c_ = const_value(p_) if p_ is not None else None
                        if p_ is not None and not isinstance(c_, int):
                            return None
                        out.append(c_)
                    return tuple(out)
                return None
            s1, s2 = sl(it.args[0]), sl(it.args[1])
            good_it = bad_it = False
            if s1 is not None and s2 is not None:
                good_it = s1[0] in (None, 0) and s1[1] in (None, -1) and s1[2] in (None, 1) and s2[0] == 1 and s2[1] is None and s2[2] in (None, 1)
                bad_it = not good_it
            if good_it and straight:
                verdict = True
            elif (good_it and swapped) or (bad_it and (straight or swapped)):
                verdict = False
        elif isinstance(f.target, ast.Name) and P.m('range(E_n)', it):
            i = f.target.id
            n_good = Pat().any(['range(len(%s) - 1)' % B, 'range(self.n_chunks)', 'range(%s.shape[0] - 1)' % B, 'range(%s.size - 1)' % B], it)
            n_bad = Pat().any(['range(len(%s))' % B, 'range(len(%s) - 2)' % B, 'range(self.n_chunks - 1)', 'range(self.n_chunks + 1)'], it)
            pair_good = Pat().m('%s[%s]' % (B, i), y0) and Pat().m('%s[%s + 1]' % (B, i), y1)
            pair_bad = (Pat().m('%s[%s + 1]' % (B, i), y0) and Pat().m('%s[%s]' % (B, i), y1)) or (Pat().m('%s[%s]' % (B, i), y0) and Pat().any(['%s[%s]' % (B, i), '%s[%s + 2]' % (B, i)], y1))
            if n_good and pair_good:
                verdict = True
            elif (n_bad and (pair_good or pair_bad)) or (n_good and pair_bad):
                verdict = False
    if verdict is True:
        ctx.holds('C16.P1', fi, 'iter_chunks yields the consecutive pairs (b[k], b[k+1]) of chunk_bounds in order', node)
    elif verdict is False:
        ctx.violated('C16.P1', fi, node, 'iter_chunks does not yield the consecutive pairs of chunk_bounds in order')
    else:
        ctx.undecided('C16.P1', fi, 'the iteration of iter_chunks over chunk_bounds was not recognised', node)


class BatchInterp(SymInterp):
    """Compressed reader: `for batch in range(reader.n_batches)` is walked over the given symbolic batch indices."""
    elems = ()

    def for_elements(self, s, itv, st):
        if is_t(itv) and itv[1] == 'call' and itv[2] == 'range' and 'n_batches' in show(itv):
            return [list(self.elems)]
        return super().for_elements(s, itv, st)


def p2_compressed_iter(ctx):
    """MtscompEphysReader.iter_chunks: the yielded intervals (chunk_bounds[i], chunk_bounds[j]) start at bound 0, chain
    (j of one == i of the next, decided as an inductive step over two consecutive symbolic batches), are ordered (i <= j)
    and the interval yielded after the loop ends at bound n_chunks. Trusted: mtscomp's n_batches = ceil(n_chunks / batch_size)."""
    repo = ctx.repo
    cls = repo.cls(TR, 'MtscompEphysReader')
    fi = repo.lookup_method(cls, 'iter_chunks')
    if fi is None or fi.cls is not cls:
        ctx.undecided('C16.P2', TR + ':MtscompEphysReader', 'the compressed reader has no chunk iterator of its own (the base iterator is decided by P1)')
        return
    me = T('self')
    rd = T('attr', me, 'reader')
    bs_t, nc_t, nb_t, cb_t = (T('attr', rd, a) for a in ('batch_size', 'n_chunks', 'n_batches', 'chunk_bounds'))
    bs, nc, nb = Lin.atom(('batch_size',)), Lin.atom(('n_chunks',)), Lin.atom(('n_batches',))
    b_t, L_t = T('b'), T('L')
    b, L = Lin.atom(('b',)), Lin.atom(('L',))
    binds = {bs_t: bs, nc_t: nc, nb_t: nb, b_t: b, L_t: L}
    from vlib.sym import mul
    probs, und = {}, {}
    stats = {'paths': 0, 'yields': 0}

    def intervals(I, elems, cache):
        I.elems = elems
        outs = I.run(fi, env={fi.params[0]: me, **({fi.params[1]: C(cache)} if len(fi.params) > 1 else {})})
        res = []
        for kind, val, st in outs:
            if kind != 'return':
                continue
            stats['paths'] += 1
            ys = []
            for y in yields_of(st):
                if is_t(y) and y[1] == 'tuple' and len(y) == 4 and all(is_t(x) and x[1] == 'index' and x[2] == cb_t for x in y[2:]):
                    ys.append((I.nf(y[2][3]), I.nf(y[3][3])))
                else:
                    ys.append(None)
            stats['yields'] += len(ys)
            res.append(ys)
        return res

    for cache in (False, True):
        # (1) first batch: starts at bound 0
        I = BatchInterp(repo, unroll=1, inline_depth=0, binds=binds, pos=[bs, nc])
        for ys in intervals(I, [C(0)], cache):
            if not ys or ys[0] is None:
                und.setdefault('first yielded interval is not a pair of chunk bounds', 1)
            elif not I.same(ys[0][0], Lin.const(0)):
                probs.setdefault('the first interval starts at chunk bound %s, not at bound 0: the beginning of the recording is skipped' % ys[0][0], 1)
        # (2) inductive step over batches b, b+1 (batch b+1 exists: batch_size * (b + 1) < n_chunks)
        I = BatchInterp(repo, unroll=1, inline_depth=0, binds=binds, pos=[bs, nc - mul(bs, b) - bs], nonneg=[b])
        got = intervals(I, [b_t, T('Add', b_t, C(1))], cache)
        if not got:
            und.setdefault('no normal path through two consecutive batches', 1)
        for ys in got:
            if len(ys) < 3 or any(y is None for y in ys):
                und.setdefault('intervals of two consecutive batches not recognised (%d yields)' % len(ys), 1)
                continue
            (i0, j0), (i1, j1), (i2, j2) = ys[0], ys[1], ys[-1]
            if not I.same(j0, i1):
                d = I.resolve(i1 - j0)
                if d.is_const() or I.interpreted(d):
                    probs.setdefault('batch b yields up to chunk bound %s but batch b+1 starts at bound %s: the chunks between them are %s' %
                                     (I.resolve(j0), I.resolve(i1), 'skipped' if I.sign(d) == '+' else 'skipped or yielded twice'), 1)
                else:
                    und.setdefault('end of batch b (%s) and start of batch b+1 (%s) not comparable' % (j0, i1), 1)
            for nm, (i, j) in (('b', (i0, j0)), ('b+1', (i1, j1))):
                if not I.ge0(j - i) and not I.ge0(I.resolve(j) - I.resolve(i)):
                    (probs if I.sign(I.resolve(j) - I.resolve(i)) == '-' else und).setdefault('interval of batch %s: end bound %s before start bound %s' % (nm, j, i), 1)
            if not I.same(i2, j1):
                probs.setdefault('the interval yielded after the loop starts at bound %s, not where the last batch ended (%s)' % (i2, j1), 1)
            if not I.same(j2, i2 + Lin.const(1)):
                probs.setdefault('the interval yielded after the loop is (%s, %s): not one chunk' % (i2, j2), 1)
        # (3) last batch L: batch_size * L < n_chunks <= batch_size * (L + 1); the final interval ends at bound n_chunks
        I = BatchInterp(repo, unroll=1, inline_depth=0, binds=binds, pos=[bs, nc - mul(bs, L)], nonneg=[L, mul(bs, L) + bs - nc])
        got = intervals(I, [L_t], cache)
        if not got:
            und.setdefault('no normal path through the last batch', 1)
        for ys in got:
            if len(ys) < 1 or any(y is None for y in ys):
                und.setdefault('intervals of the last batch not recognised', 1)
                continue
            i2, j2 = ys[-1]
            if not I.same(j2, nc):
                d = I.resolve(j2 - nc)
                if d.is_const() or I.interpreted(d):
                    probs.setdefault('the last interval ends at chunk bound %s, not at bound n_chunks: the end of the recording is not yielded (or exceeded)' % I.resolve(j2), 1)
                else:
                    und.setdefault('end of the last interval (%s) not comparable with n_chunks' % j2, 1)
    ctx.analysed['paths'] += stats['paths']
    if probs:
        for msg in list(probs)[:4]:
            ctx.violated('C16.P2', fi, msg[:150], msg)
    elif und:
        for msg in list(und)[:3]:
            ctx.undecided('C16.P2', fi, msg)
    else:
        ctx.holds('C16.P2', fi, 'compressed iter_chunks (cache on and off): first interval starts at bound 0; end bound of batch b == start bound of '
                  'batch b+1 (inductive step, symbolic batch index and batch size); start <= end; the interval after the loop is the one chunk '
                  'following the last batch and ends at bound n_chunks (%d paths, %d yielded intervals)' % (stats['paths'], stats['yields']), 'iter_chunks')


class GcbInterp(SymInterp):
    """_get_chunk_bounds: the growing list is modelled as ('list', ..., star(unknown prefix), items...)."""

    def on_method(self, call, name, recv, args, kwargs, st):
        m = call.func.attr
        if isinstance(call.func.value, ast.Name) and is_t(recv) and recv[1] == 'list':
            nm = call.func.value.id
            if m == 'append' and len(args) == 1:
                s = st.copy()
                s.env[nm] = T('list', *(recv[2:] + (args[0],)))
                return [('ok', C(None), s)]
            if m == 'extend' and len(args) == 1:
                s = st.copy()
                a = args[0]
                if is_t(a) and a[1] == 'list':
                    s.env[nm] = T('list', *(recv[2:] + a[2:]))
                else:
                    s.env[nm] = T('list', *(recv[2:] + (T('star', a),)))
                return [('ok', C(None), s)]
        return None

    def truth_of(self, v, st):
        # emptiness of a modelled list
        if is_t(v) and v[1] == 'list':
            if len(v) == 2:
                return [(False, st)]
            if any(not (is_t(x) and x[1] == 'star') for x in v[2:]):
                return [(True, st)]
        return super().truth_of(v, st)


def s3_get_chunk_bounds(ctx):
    repo = ctx.repo
    fi = repo.func(TR, '_get_chunk_bounds')
    loops = fi.nodes(ast.For)
    if not loops:
        ctx.undecided('C16.S3', fi, 'no loop over the part sizes')
        return
    loop = loops[0]
    I = GcbInterp(repo, unroll=1, pos=[T('param', fi.params[1])], nonneg=[T('n0'), T('size')])
    nf = I.nf
    sizes, cs = fi.params[0], fi.params[1]
    # names: accumulator list and running total are whatever the code returns / adds to
    ret = [r for r in fi.returns() if r.value is not None]
    if not ret or not isinstance(ret[-1].value, ast.Name):
        ctx.undecided('C16.S3', fi, 'return value is not a plain name')
        return
    bname = ret[-1].value.id
    augs = [a for a in loop.body if isinstance(a, ast.AugAssign) and isinstance(a.op, ast.Add) and isinstance(a.target, ast.Name)]
    if not augs:
        ctx.undecided('C16.S3', fi, 'no running total in the loop')
        return
    nname = augs[-1].target.id
    probs = {}
    npaths = 0
    for pre_b, label in ((T('list'), 'first part'), (T('list', T('star', T('prefix')), T('n0')), 'later part')):
        n0 = C(0) if label == 'first part' else T('n0')
        env = {cs: T('param', cs), bname: pre_b, nname: n0, unparse(loop.target): T('size')}
        I.fi_stack = [fi]
        I._pending = []
        outs = I.block(loop.body, proto.State(env))
        for kind, val, st in outs:
            if kind != 'fall':
                continue
            npaths += 1
            b = st.env.get(bname)
            tot = st.env.get(nname)
            if not equal(nf(tot), nf(n0) + nf(T('size'))):
                probs.setdefault('running total after a part is %s, expected previous total + part size' % nf(tot), 1)
            if not (is_t(b) and b[1] == 'list' and len(b) > 2):
                probs.setdefault('bounds list after a part is %s' % show(b)[:60], 1)
                continue
            last = b[-1]
            if is_t(last) and last[1] == 'star':
                # last element of the grid list: decided only through the recorded fact  b[-1] == total
                key_terms = [k for k in st.facts if k[0] == 'rel']
                eqs = [k for k in key_terms if st.facts[k] == '=']
                ok = any(equal(nf(x), nf(n0) + nf(T('size'))) for k in eqs for x in k[1:])
                if not ok:
                    probs.setdefault('%s: the last bound after a part is the end of the regular grid, not established equal to the running total' % label, 1)
            elif not equal(nf(last), nf(n0) + nf(T('size'))):
                probs.setdefault('%s: last bound after the part is %s, expected the running total %s' % (label, nf(last), nf(n0) + nf(T('size'))), 1)
    # the regular grid of a part: range(n, n + size + 1, chunk_size)
    grid_ok = False
    for c in q.calls_named(loop, 'range'):
        if len(c.args) == 3:
            a0, a1, a2 = (unparse(x).replace(' ', '') for x in c.args)
            tgt = unparse(loop.target)
            grid_ok = a0 == nname and a1 in ('%s+%s+1' % (nname, tgt), '%s+%s+1' % (tgt, nname), '1+%s+%s' % (nname, tgt)) and a2 == cs
            node = c
    init_ok = any(isinstance(s_, ast.Assign) and unparse(s_.targets[0]) == nname and const_value(s_.value) == 0 for s_ in fi.body())
    if probs:
        for msg in list(probs)[:3]:
            ctx.violated('C16.S3', fi, msg[:150], msg)
    else:
        ctx.holds('C16.S3', fi, 'after every part the last chunk bound equals the running total of the part sizes (%d paths)' % npaths, '_get_chunk_bounds')
    ctx.check(grid_ok and init_ok, 'C16.S3', fi, node if grid_ok else '_get_chunk_bounds',
              'inside a part the bounds are the regular grid total, total + chunk_size, ... up to the part end; totals start at 0',
              'the per-part grid is not range(total, total + size + 1, chunk_size) starting from total 0')
    # the duplicate boundary between two parts is dropped (strictly increasing bounds)
    dedup = False
    for ifn in [s_ for s_ in loop.body if isinstance(s_, ast.If)]:
        t = unparse(ifn.test).replace(' ', '')
        if '[0]==%s[-1]' % bname in t or '%s[-1]==' % bname in t:
            dedup = True
    ctx.check(dedup, 'C16.S3', fi, '_get_chunk_bounds', 'a grid point equal to the previous last bound is dropped (no repeated bound at file boundaries)',
              'a bound repeated at a file boundary is not dropped: the bounds do not increase strictly')


def run(ctx):
    ctx.part('C16.S1', s1_chunk_bounds)
    ctx.part('C16.S2', s2_excerpts)
    ctx.part('C16.P1', p1_iter_chunks)
    ctx.part('C16.P2', p2_compressed_iter)
    ctx.part('C16.S3', s3_get_chunk_bounds)


LEVEL_TEXT = ('Static path walk of the chunking generators with linear normal forms: yield-chain equalities of chunk_bounds '
              '(starts at 0, each kept part starts where the previous ended, no gaps, length <= chunk_size, tail kept up to n_samples), '
              'bounds / disjointness / count of excerpts, whole-data shortcut of get_excerpts, kept-bounds slicing of data_chunk, '
              'consecutive-pair iteration of reader chunk bounds, the chaining of the compressed reader\'s batch intervals (inductive step over a symbolic batch), '
              'and the last-bound == running-total invariant of _get_chunk_bounds.')
LEVEL_NOTE = ('Trusted: normal-form rewriting (vlib/sym.py), loop unrolling 0..2, preconditions chunk_size > 0, overlap >= 0. '
              'mtscomp n_batches = ceil(n_chunks / batch_size). Not decided: the mtscomp decoder and its chunk table, numeric residues, strict monotonicity at value level.')
TECHNIQUE = 'static analysis: path walk of generators with symbolic normal forms (equalities and syntactic sign facts, no solver)'
