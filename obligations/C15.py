"""C15 - correlograms count exactly the spike pairs in each lag bin.

Decided
  U1  units and roles in correlograms(): times x rate -> samples; bin size in samples; delay // bin size -> bins; the index triple
      handed to ravel_multi_index is (cluster of the EARLIER spike, cluster of the LATER spike, lag of later minus earlier) against
      an array of (clusters, clusters, half + 1) entries; relative cluster indices are positions in the caller's cluster list
  K1  a pair is dropped only when its lag EXCEEDS the half window (strict >), so the edge bin is counted
  D1  relabelling uses the caller's cluster_ids in the caller's order (or the present ids when none is given)
  A1  _symmetrize_correlograms, decided in full by a symbolic index-map domain (no sizes instantiated):
      output = [ C'[j, i, half - k] for k = 0 .. half-1 ] ++ [ C'[i, j, k] for k = 0 .. half ]  with C' = C except
      C'[i, j, 0] = max(C[i, j, 0], C[j, i, 0]); hence 2*half + 1 bins, C[i,j,k] = C[j,i,-k], positive lags unchanged
  U2  firing_rate = (counts outer counts) x bin / duration with counts padded by zeros up to the number of requested ids
Not decided: the pair count itself (the shrinking-mask loop is value level).
"""
import ast

from vlib import q
from vlib.front import unparse, dotted, const_value, AnchorMissing
from vlib.shape import Shape, Space, Ix, Q, D, BoolT, StrT, NoneT, SizeOf, UNK, is_unk, Arr, Rec, Tup, ListT, DictT, B
from vlib.viewmap import View, Op, Cat, L, K
from obligations.shape_tables import (COMMON_SIGS, CCG, AR, Spike, SEC, RATE, Clu, CNT)

FLOOR = 22
EXPLANATION = ('shape engine over correlograms() / firing_rate() (dimensions of times, samples, bins; index spaces of the relabelled clusters '
               'and of the three components of the flat index); structural role rules for earlier/later spike and the edge test; a symbolic '
               'index-map domain (views as affine maps of indices, concatenations, elementwise max) interprets _symmetrize_correlograms and its '
               'result is compared with the specification map for all sizes at once')
TRUSTED = ['python ast', 'NumPy slicing / transpose / dstack semantics as encoded in vlib/viewmap.py', 'np.ravel_multi_index component order']
ASSUMPTIONS = ['spike times are non-decreasing', 'time x rate is exact']


class VM:
    """Interpreter of rearrangement code over the index-map domain."""

    def __init__(self):
        self.defs = {}      # derived base name -> (axis, index, value on that plane, parent base)
        self.undecided = None

    def item(self, node):
        if isinstance(node, ast.Constant) and node.value is Ellipsis:
            return 'ellipsis'
        if isinstance(node, ast.Slice):
            vals = []
            for p in (node.lower, node.upper, node.step):
                if p is None:
                    vals.append(None)
                else:
                    c = const_value(p)
                    if not isinstance(c, int):
                        raise ValueError('non-constant slice bound `%s`' % unparse(p))
                    vals.append(c)
            return ('slice',) + tuple(vals)
        c = const_value(node)
        if isinstance(c, int):
            return ('int', c)
        raise ValueError('index `%s`' % unparse(node))

    def ev(self, e, env):
        if isinstance(e, ast.Name):
            if e.id not in env:
                raise ValueError('name %s' % e.id)
            return env[e.id]
        if isinstance(e, ast.Subscript):
            base = self.ev(e.value, env)
            items = [self.item(x) for x in (e.slice.elts if isinstance(e.slice, ast.Tuple) else [e.slice])]
            return base.index(items)
        if isinstance(e, ast.Attribute) and e.attr == 'T':
            return self.ev(e.value, env).transpose()
        if isinstance(e, ast.Call):
            f = dotted(e.func) or ''
            if f == 'np.transpose':
                order = [const_value(x) for x in e.args[1].elts] if len(e.args) > 1 else None
                return self.ev(e.args[0], env).transpose(order)
            if isinstance(e.func, ast.Attribute) and e.func.attr == 'transpose':
                args = e.args[0].elts if e.args and isinstance(e.args[0], ast.Tuple) else e.args
                order = [const_value(x) for x in args] if args else None
                return self.ev(e.func.value, env).transpose(order)
            if f == 'np.swapaxes':
                v = self.ev(e.args[0], env)
                i, j = const_value(e.args[1]), const_value(e.args[2])
                order = list(range(v.ndim()))
                order[i], order[j] = order[j], order[i]
                return v.transpose(order)
            if f in ('np.maximum', 'np.minimum', 'np.add'):
                return Op(f[3:], self.ev(e.args[0], env), self.ev(e.args[1], env))
            if isinstance(e.func, ast.Attribute) and e.func.attr == 'copy':
                return self.ev(e.func.value, env)
            if f in ('np.dstack', 'np.concatenate', 'np.hstack', 'np.vstack'):
                parts = [self.ev(x, env) for x in e.args[0].elts]
                axis = {'np.dstack': 2, 'np.hstack': 1, 'np.vstack': 0}.get(f)
                if f == 'np.concatenate':
                    ax = q.arg(e, 1, 'axis')
                    axis = const_value(ax) if ax is not None else 0
                    if isinstance(axis, int) and axis < 0:
                        axis += parts[0].ndim()
                return Cat(axis, parts)
        raise ValueError('expression `%s`' % unparse(e)[:60])

    def run(self, fi, env):
        ret = None
        for s in fi.body():
            if isinstance(s, ast.Assign) and isinstance(s.targets[0], ast.Name):
                try:
                    env[s.targets[0].id] = self.ev(s.value, env)
                except ValueError:
                    if isinstance(s.value, ast.Attribute) and s.value.attr == 'shape':
                        continue
                    raise
            elif isinstance(s, ast.Assign) and isinstance(s.targets[0], ast.Tuple):
                continue
            elif isinstance(s, ast.Assign) and isinstance(s.targets[0], ast.Subscript) and isinstance(s.targets[0].value, ast.Name):
                nm = s.targets[0].value.id
                base = env[nm]
                if not isinstance(base, View):
                    raise ValueError('store into a derived value')
                items = [self.item(x) for x in (s.targets[0].slice.elts if isinstance(s.targets[0].slice, ast.Tuple) else [s.targets[0].slice])]
                tgt = base.index(items)
                val = self.ev(s.value, env)
                new = base.base + "'"
                self.defs[new] = (tgt, val, base.base)
                env[nm] = View(new, base.axes, base.lens, base.fixed)
            elif isinstance(s, ast.Return):
                ret = self.ev(s.value, env)
                break
            elif isinstance(s, (ast.Assert, ast.Expr)):
                continue
            else:
                raise ValueError('statement `%s`' % unparse(s)[:50])
        return ret


def a1_symmetrize(ctx):
    fi = ctx.repo.func(CCG, '_symmetrize_correlograms')
    N, Lb = L('N'), L('B')
    vm = VM()
    try:
        res = vm.run(fi, {fi.params[0]: View.of('c', [N, N, Lb])})
    except ValueError as e:
        ctx.undecided('C15.A1', fi, 'construct outside the index-map domain: %s' % e)
        return
    # specification
    c1 = View.of("c'", [N, N, Lb])
    neg = View("c'", [(1, 1, K(0)), (0, 1, K(0)), (2, -1, Lb - K(1))], [N, N, Lb - K(1)])
    spec = Cat(2, [neg, c1])
    plane = View.of('c', [N, N, Lb]).index(['ellipsis', ('int', 0)])
    spec_def = (plane.key(), Op('maximum', plane, plane.transpose()).key(), 'c')
    if not isinstance(res, Cat):
        ctx.violated('C15.A1', fi, 'result', 'the symmetrised array is %s, not the concatenation [negative lags | one-sided correlogram] along the lag axis' % res)
        return
    ctx.check(res.axis == 2, 'C15.A1', fi, 'concatenation axis', 'the two halves are joined along the lag axis', 'the halves are joined along axis %s' % res.axis)
    total = None
    for p in res.parts:
        ln = p.lens[2] if hasattr(p, 'lens') and len(p.lens) == 3 else None
        total = ln if total is None else (total + ln if ln is not None else None)
    want_total = Lb + Lb - K(1)
    ctx.check(total is not None and (total - want_total).is_zero(), 'C15.A1', fi, 'bins', 'the result has 2*half + 1 lag bins (B + B - 1 with B = half + 1 one-sided bins)',
              'the result has %s lag bins, expected 2*B - 1 = 2*half + 1' % total)
    if len(res.parts) == 2:
        a, b = res.parts
        ctx.check(b.key() == c1.key(), 'C15.A1', fi, 'non-negative lags', 'non-negative lags: out[i, j, half + k] = C\'[i, j, k] (one-sided counts unchanged)',
                  'non-negative lags are %s, expected the one-sided array itself' % b)
        ctx.check(a.key() == neg.key(), 'C15.A1', fi, 'negative lags', 'negative lags: out[i, j, half - k] = C\'[j, i, k] for k = 1..half (clusters swapped, lag reversed)',
                  'negative lags are %s, expected C\'[j, i, (B-1) - k] over B-1 bins (clusters swapped AND lags reversed, zero lag not repeated)' % a)
    else:
        ctx.violated('C15.A1', fi, 'parts', 'the result is made of %d parts, expected 2' % len(res.parts))
    d = vm.defs.get("c'")
    if d is None:
        ctx.violated('C15.A1', fi, 'zero lag', 'the zero-lag plane is not symmetrised (C[i,j,0] must become max(C[i,j,0], C[j,i,0]) before mirroring)')
    else:
        tgt, val, parent = d
        ok = tgt.key() == plane.key() and isinstance(val, Op) and val.key() == Op('maximum', plane, plane.transpose()).key() and parent == 'c'
        ctx.check(ok, 'C15.A1', fi, 'zero lag', 'zero lag: C\'[i, j, 0] = max(C[i, j, 0], C[j, i, 0]), other lags untouched',
                  'the zero-lag plane is set to %s at %s, expected max(C[i,j,0], C[j,i,0]) on the plane k = 0' % (val, tgt))
    ctx.check(set(vm.defs) <= {"c'"}, 'C15.A1', fi, 'stores', 'only the zero-lag plane of the input is modified', 'other parts of the input are overwritten: %s' % sorted(vm.defs))


def run(ctx):
    repo = ctx.repo
    cg = repo.func(CCG, 'correlograms')
    # ---- U1 shape run
    ReqClu = B('ReqClu')
    sigs = dict(COMMON_SIGS)

    def sig_as_array(S, e, a, kw, env):
        return a[0] if a else UNK
    sigs['_as_array'] = sig_as_array
    S = Shape(repo, sigs=sigs, inline_depth=2)
    env = {'spike_times': Arr((Spike,), SEC), 'spike_clusters': Arr((Spike,), Ix(Clu)), 'cluster_ids': Arr((ReqClu,), Ix(Clu)), 'sample_rate': RATE,
           'bin_size': SEC, 'window_size': SEC, 'symmetrize': BoolT(False)}
    S.run(cg, env)
    for r in S.reports:
        ctx.violated('C15.U1', r.fi, r.node, r.msg)
    if not S.reports:
        ctx.holds('C15.U1', cg, 'no index-space / dimension conflict in correlograms() (relative cluster indices, flat index components, units)', 'correlograms')
    # units by structural + dimension reasoning
    a = {unparse(x.targets[0]): x for x in cg.nodes(ast.Assign) if isinstance(x.targets[0], ast.Name)}

    def dim_of(name):
        S2 = Shape(repo, sigs=sigs, inline_depth=2)
        e2 = dict(env)
        rets = []
        S2.fi_stack.append(cg)
        for st in cg.body():
            S2.stmt(st, e2, rets)
            if isinstance(st, ast.Assign) and unparse(st.targets[0]) == name:
                break
        S2.fi_stack.pop()
        return e2.get(name)
    ss = dim_of('spike_samples')
    if isinstance(ss, Arr) and isinstance(ss.elem, Q):
        ctx.check(ss.elem.d() == {'samp': 1}, 'C15.U1', cg, 'spike_samples', 'spike samples = times x sampling rate (samples)', 'spike samples are %s' % ss)
    else:
        ctx.undecided('C15.U1', cg, 'the unit of `spike_samples` was not derived (%s)' % ss)
    bs = dim_of('binsize')
    if isinstance(bs, Q):
        ctx.check(bs.d() == {'samp': 1}, 'C15.U1', cg, 'binsize', 'bin size in samples = rate x bin size', 'the bin size is %s, expected samples' % bs)
    else:
        ctx.undecided('C15.U1', cg, 'the unit of `binsize` was not derived (%s)' % bs)
    sd = [x for x in cg.nodes(ast.Assign) if unparse(x.targets[0]) == 'spike_diff_b']
    ctx.check(bool(sd) and unparse(sd[0].value).replace(' ', '') == 'spike_diff//binsize', 'C15.U1', cg, sd[0] if sd else 'lag', 'lag in bins = floor(delay in samples / bin size in samples)',
              'the lag is `%s`, not floor(delay / bin size)' % (unparse(sd[0].value) if sd else '?'))
    wb = a.get('winsize_bins')
    ctx.check(wb is not None and unparse(wb.value).replace(' ', '') in ('2*int(0.5*window_size/bin_size)+1', '2*int(.5*window_size/bin_size)+1'), 'C15.U1', cg, wb or 'winsize_bins',
              'window in bins = 2*int(window / (2 bin)) + 1 (odd)', 'the window size in bins is `%s`' % (unparse(wb.value) if wb is not None else '?'))
    ca = repo.func(CCG, '_create_correlograms_array')
    z = [c for c in ca.calls() if dotted(c.func) == 'np.zeros']
    ok = bool(z) and unparse(z[0].args[0]).replace(' ', '') == '(%s,%s,%s//2+1)' % (ca.params[0], ca.params[0], ca.params[1])
    ctx.check(ok, 'C15.U1', ca, z[0] if z else '_create_correlograms_array', 'the one-sided array has (clusters, clusters, half + 1) entries', 'the one-sided array shape is `%s`' % (unparse(z[0].args[0]) if z else '?'))
    # roles
    rmi = [c for c in cg.calls() if dotted(c.func) == 'np.ravel_multi_index']
    okr = False
    if rmi and isinstance(rmi[0].args[0], ast.Tuple) and len(rmi[0].args[0].elts) == 3:
        e0, e1, e2 = (unparse(x).replace(' ', '') for x in rmi[0].args[0].elts)
        okr = e0 == 'spike_clusters_i[:-shift][m]' and e1 in ('spike_clusters_i[+shift:][m]', 'spike_clusters_i[shift:][m]') and e2 == 'd' and unparse(rmi[0].args[1]) == 'correlograms.shape'
    ctx.check(okr, 'C15.U1', cg, rmi[0] if rmi else 'flat index', 'flat index = (cluster of the earlier spike, cluster of the later spike, lag) in the shape of the count array',
              'the flat index is not (clusters[:-shift][m], clusters[shift:][m], lag): earlier / later roles or the lag are misplaced')
    ds = repo.func(CCG, '_diff_shifted')
    r = [x for x in ds.returns() if x.value is not None]
    t = unparse(r[-1].value).replace(' ', '') if r else ''
    ctx.check(t == '%s[%s:]-%s[:len(%s)-%s]' % (ds.params[0], ds.params[1], ds.params[0], ds.params[0], ds.params[1]), 'C15.U1', ds, r[-1] if r else '_diff_shifted',
              'delay = later spike minus earlier spike (non-negative for sorted times)', '_diff_shifted is `%s`, not arr[steps:] - arr[:len(arr) - steps]' % t)
    # the delay is the difference of the INTEGER sample indices floor(t * rate): subtracting the float times first and truncating afterwards
    # can land just below the exact integer ((0.3 - 0.1) * 10 = 1.9999999999999998 -> 1) and moves the pair one bin down
    dcalls = [c for c in cg.calls() if dotted(c.func) == '_diff_shifted' and c.args]
    if not dcalls:
        ctx.undecided('C15.U1', cg, 'no call of _diff_shifted in correlograms(): provenance of the delay not recognised')
    for c in dcalls[:1]:
        arg = c.args[0]
        src = cg.expand(arg)
        casts = [n for n in ast.walk(src) if isinstance(n, ast.Call) and q.method_name(n) == 'astype' and n.args and unparse(n.args[0]) in ('np.int64', 'int', 'np.int32', 'np.intp', 'np.uint64', "'int64'")]
        casts += [n for n in ast.walk(src) if isinstance(n, ast.Call) and dotted(n.func) in ('np.floor', 'np.rint', 'np.round', 'np.int64')]
        floaty = isinstance(arg, ast.Name) and arg.id in cg.params and not casts
        if casts:
            ctx.holds('C15.U1', cg, 'the delay is the difference of integer sample indices (`%s`)' % unparse(src)[:70], c)
        elif floaty or (isinstance(src, ast.BinOp) and not casts) or (isinstance(src, ast.Call) and dotted(src.func) in ('np.asarray', 'np.array', '_as_array') and not casts):
            ctx.violated('C15.U1', cg, c, 'the delay is computed by subtracting `%s`, which is not converted to integer sample indices first: the floating-point difference of two '
                         'times can fall just below the exact value, and the pair is counted one bin too low after truncation' % unparse(arg))
        else:
            ctx.undecided('C15.U1', cg, 'operand of _diff_shifted (`%s`) not recognised as integer samples or float times' % unparse(src)[:60], c)
    dd = [x for x in cg.nodes(ast.Assign) if unparse(x.targets[0]) == 'd']
    ctx.check(bool(dd) and all(unparse(x.value).replace(' ', '') == 'spike_diff_b[m]' for x in dd), 'C15.U1', cg, dd[0] if dd else 'd', 'the lag of a pair is read with the same mask as its clusters',
              'the lag vector is not spike_diff_b[m]')
    inc = [c for c in cg.calls() if dotted(c.func) == '_increment']
    ctx.check(bool(inc) and unparse(inc[0].args[0]).replace(' ', '') == 'correlograms.ravel()' and unparse(inc[0].args[1]) == 'indices', 'C15.U1', cg, inc[0] if inc else '_increment',
              'the counts are incremented in place at the flat indices', 'the counts are not incremented at the flat indices of the count array')
    fi_inc = repo.func(CCG, '_increment')
    t = ast.unparse(fi_inc.node)
    ctx.check('np.bincount(indices)' in t and '[:len(bbins)] += bbins' in t, 'C15.U1', fi_inc, '_increment', 'repeated indices are all counted (bincount)', '_increment does not add the multiplicity of every index')
    # K1
    k1 = [x for x in cg.nodes(ast.Assign) if isinstance(x.targets[0], ast.Subscript) and const_value(x.value) is False]
    okk = bad = False
    if k1:
        t = unparse(k1[0].targets[0]).replace(' ', '')
        okk = t in ('mask[:-shift][spike_diff_b>winsize_bins//2]', 'mask[:-shift][spike_diff_b>(winsize_bins//2)]')
        bad = '>=' in t or 'winsize_bins//2-1' in t or 'winsize_bins]' in t
    if okk:
        ctx.holds('C15.K1', cg, 'a pair is masked out only when its lag exceeds the half window (strict >)', k1[0])
    elif bad or not k1:
        ctx.violated('C15.K1', cg, k1[0] if k1 else 'mask', 'pairs are dropped on `%s`: pairs whose lag equals the half window (the edge bin) must be kept, nothing else dropped' % (unparse(k1[0].targets[0]) if k1 else 'no mask update'))
    else:
        ctx.undecided('C15.K1', cg, 'edge test `%s` not recognised' % unparse(k1[0].targets[0]), k1[0])
    wh = [w for w in cg.nodes(ast.While)]
    ctx.check(bool(wh) and unparse(wh[0].test).replace(' ', '') == 'mask[:-shift].any()', 'C15.K1', cg, wh[0].test if wh else 'loop', 'the shift grows while some spike still has a partner inside the window',
              'the loop condition is `%s`' % (unparse(wh[0].test) if wh else '?'))
    sh = [x for x in cg.nodes(ast.AugAssign) if unparse(x.target) == 'shift']
    init = a.get('shift')
    ctx.check(bool(sh) and const_value(sh[0].value) == 1 and init is not None and const_value(init.value) == 1, 'C15.K1', cg, sh[0] if sh else 'shift', 'shifts 1, 2, 3, ... are all visited', 'the shift does not run through 1, 2, 3, ...')
    # D1
    cl = [i for i in cg.nodes(ast.If) if unparse(i.test).replace(' ', '') == 'cluster_idsisNone']
    okd = False
    if cl:
        b = {unparse(x.targets[0]): unparse(x.value).replace(' ', '') for x in cl[0].body if isinstance(x, ast.Assign)}
        o = {unparse(x.targets[0]): unparse(x.value).replace(' ', '') for x in cl[0].orelse if isinstance(x, ast.Assign)}
        okd = b.get('clusters') == '_unique(spike_clusters)' and o.get('clusters') in ('_as_array(cluster_ids)', 'np.asarray(cluster_ids)')
    ctx.check(okd, 'C15.D1', cg, cl[0] if cl else 'cluster list', "the cluster axis follows the caller's cluster_ids in the caller's order (present ids when none is given)",
              'the cluster list is not the caller\'s list in the caller\'s order')
    rel = a.get('spike_clusters_i')
    ctx.check(rel is not None and unparse(rel.value).replace(' ', '') == '_index_of(spike_clusters,clusters)', 'C15.D1', cg, rel or 'relabel', 'spikes are relabelled by their position in that list',
              'spikes are not relabelled by _index_of(spike_clusters, clusters)')
    nc = a.get('n_clusters')
    ctx.check(nc is not None and unparse(nc.value) == 'len(clusters)', 'C15.D1', cg, nc or 'n_clusters', 'the array has one row/column per listed cluster', 'n_clusters is not len(clusters)')
    sym = [r_ for r_ in cg.returns() if isinstance(r_.value, ast.Call) and dotted(r_.value.func) == '_symmetrize_correlograms']
    ctx.check(bool(sym) and any(isinstance(x, ast.If) and unparse(x.test) == 'symmetrize' for x in cg.ancestors(sym[0])), 'C15.D1', cg, sym[0] if sym else 'return',
              'the symmetrised array is returned when requested, the one-sided one otherwise', 'symmetrize does not select between the symmetrised and the one-sided result')
    from obligations.shape_tables import check_index_of
    check_index_of(ctx, 'C15.D1')
    # ---- A1
    a1_symmetrize(ctx)
    # ---- U2 firing rate
    fr = repo.func(CCG, 'firing_rate')
    r = [x for x in fr.returns() if x.value is not None]
    t = unparse(r[-1].value).replace(' ', '') if r else ''
    ctx.check(t in ('bc*np.c_[bc]*(bin_size/(durationor1.0))', 'bc*np.c_[bc]*(bin_size/(durationor1))', 'np.outer(bc,bc)*(bin_size/(durationor1.0))', 'np.outer(bc,bc)*bin_size/(durationor1.0)'),
              'C15.U2', fr, r[-1] if r else 'firing_rate', 'normaliser = (counts outer counts) x bin / duration', 'the firing-rate normaliser is `%s`' % t)
    S = Shape(repo, sigs=sigs, inline_depth=2)
    res = S.result(fr, {'spike_clusters': Arr((Spike,), Ix(Clu)), 'cluster_ids': Arr((ReqClu,), Ix(Clu)), 'bin_size': SEC, 'duration': SEC})
    for r_ in S.reports:
        ctx.violated('C15.U2', r_.fi, r_.node, '[firing_rate] %s' % r_.msg)
    if isinstance(res, Arr) and isinstance(res.elem, Q):
        ctx.check(res.elem.d() == {'cnt': 2}, 'C15.U2', fr, 'firing_rate dimension', 'counts^2 x (s / s): a pair count per bin', 'the normaliser has dimension %s, expected count^2 (bin / duration is a pure ratio)' % res.elem)
    pad = [i for i in fr.nodes(ast.If) if unparse(i.test).replace(' ', '') == 'len(bc)<len(cluster_ids)']
    okp = False
    if pad:
        b = ast.unparse(pad[0])
        okp = 'np.concatenate((bc, np.zeros(n' in b and 'n = len(cluster_ids) - len(bc)' in b
    ctx.check(okp, 'C15.U2', fr, pad[0] if pad else 'padding', 'counts of trailing ids without spikes are padded with zeros', 'counts are not zero-padded up to the number of requested ids')
    rl = [x for x in fr.nodes(ast.Assign) if unparse(x.targets[0]) == 'spike_clusters_i']
    ctx.check(bool(rl) and unparse(rl[0].value).replace(' ', '') == '_index_of(spike_clusters,cluster_ids)', 'C15.U2', fr, rl[0] if rl else 'relabel', "counts follow the caller's cluster order",
              "counts do not follow the caller's cluster order")


LEVEL_TEXT = ('Static check of the correlogram code: unit and index-space typing of correlograms() and firing_rate(), role rules for the flat '
              'index (earlier cluster, later cluster, lag = later - earlier), the strict edge test, caller-ordered relabelling, and a complete '
              'symbolic index-map derivation of _symmetrize_correlograms compared with C[i,j,k] = C[j,i,-k] / 2*half+1 bins / max at zero lag.')
LEVEL_NOTE = ('Trusted: NumPy slicing/transpose/dstack semantics as encoded in vlib/viewmap.py, ravel_multi_index component order. Not decided: the pair '
              'count of the shrinking-mask loop (sentence 1 of the property).')
TECHNIQUE = 'static analysis: unit/index-space typing plus a symbolic index-map (view algebra) abstract domain'
