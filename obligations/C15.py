"""C15 - correlograms count exactly the spike pairs in each lag bin.

Decided
  U1  units and roles in correlograms(): times x rate -> samples; bin size in samples; delay // bin size -> bins; the index triple
      handed to ravel_multi_index is (cluster of the EARLIER spike, cluster of the LATER spike, lag of later minus earlier) against
      an array of (clusters, clusters, half + 1) entries; relative cluster indices are positions in the caller's cluster list
  K1  a pair is dropped only when its lag EXCEEDS the half window (strict >), so the edge bin is counted
  D1  relabelling uses the caller's cluster_ids in the caller's order (or the present ids when none is given)
  A1  _symmetrize_correlograms, decided in full by a symbolic index-map domain (no sizes instantiated):
      output = [ C'[j, i, half - k] for k = 0 .. half-1 ] ++ [ C'[i, j, k] for k = 0 .. half ]  with C' = C except
      C'[i, j, 0] = max(C[i, j, 0], C[j, i, 0]); hence 2*half + 1 bins, C[i,j,k] = C[j,i,-k], positive lags unchanged
  U2  firing_rate = (counts outer counts) x bin / duration with counts padded by zeros up to the number of requested ids
  +   window in bins = 2 * floor(window / (2 bin)) + 1: a rounded or ceiled ratio is a recognised wrong form
  +   outside the index-map domain one idiom is still judged: values gathered along np.triu_indices stored along np.tril_indices (or the reverse)
  +   K1 also on the delay in samples: dropped iff delay >= (half + 1) x bin size (the bound is compared with the specification on a grid of odd windows x bin sizes)
Not decided: the pair count itself (the shrinking-mask loop is value level).
"""
import ast

from vlib import q
from vlib.pat import Pat, returned
from vlib.front import unparse, dotted, const_value, AnchorMissing
from vlib.shape import Shape, Space, Ix, Q, D, BoolT, StrT, NoneT, SizeOf, UNK, is_unk, Arr, Rec, Tup, ListT, DictT, B
from vlib.viewmap import View, Op, Cat, L, K
from obligations.shape_tables import (COMMON_SIGS, CCG, AR, Spike, SEC, RATE, Clu, CNT)

FLOOR = 10          # decided obligations below this = the analysis lost its footing (exit 2); clean tree: 29
RULES = ('C15.A1', 'C15.D1', 'C15.K1', 'C15.U1', 'C15.U2')          # every obligation group must report (holds / violated / undecided): a group that vanishes silently is an analysis error
EXPLANATION = ('shape engine over correlograms() / firing_rate() (dimensions of times, samples, bins; index spaces of the relabelled clusters '
               'and of the three components of the flat index); structural role rules for earlier/later spike and the edge test; a symbolic '
               'index-map domain (views as affine maps of indices, concatenations, elementwise max) interprets _symmetrize_correlograms and its '
               'result is compared with the specification map for all sizes at once')
TRUSTED = ['python ast', 'NumPy slicing / transpose / dstack semantics as encoded in vlib/viewmap.py', 'np.ravel_multi_index component order']
ASSUMPTIONS = ['spike times are non-decreasing', 'time x rate is exact']


class VM:
    """Interpreter of rearrangement code over the index-map domain."""

    def __init__(self):
        self.defs = {}      # derived base name -> (axis, index, value on that plane, parent base)
        self.undecided = None
        self.scal = {}      # scalar locals bound to symbolic lengths (n_bins = x.shape[2], half = n_bins - 1)
        self.cur_len = None

    def item(self, node):
        if isinstance(node, ast.Constant) and node.value is Ellipsis:
            return 'ellipsis'
        if isinstance(node, ast.Slice):
            vals = []
            for k_, p in enumerate((node.lower, node.upper, node.step)):
                if p is None:
                    vals.append(None)
                else:
                    c = const_value(p)
                    if not isinstance(c, int):
                        if k_ < 2 and isinstance(p, ast.UnaryOp) and isinstance(p.op, ast.USub):
                            e_ = self.scalar(p.operand)
                            if e_ is not None and self.cur_len is not None:
                                # x[-E:] counts from the end only when E > 0: for E == 0 the bound is -0 == 0 and the slice starts at the beginning
                                if self.min_value(e_) <= 0:
                                    raise NegZero('the slice bound `%s` is -0 = 0 when `%s` is 0 (%s with one bin only: a window shorter than two bins): the slice then starts at the beginning '
                                                  'of the axis instead of selecting nothing, and the symmetrised array gets the centre bin twice' % (unparse(p), unparse(p.operand), e_))
                                vals.append(self.cur_len - e_)
                                continue
                        raise ValueError('non-constant slice bound `%s`' % unparse(p))
                    vals.append(c)
            return ('slice',) + tuple(vals)
        c = const_value(node)
        if isinstance(c, int):
            return ('int', c)
        raise ValueError('index `%s`' % unparse(node))

    def scalar(self, e):
        """Linear form of a scalar expression over the symbolic lengths (names bound from `.shape` unpacking / arithmetic), or None."""
        c = const_value(e)
        if isinstance(c, int) and not isinstance(c, bool):
            return K(c)
        if isinstance(e, ast.Name):
            return self.scal.get(e.id)
        if isinstance(e, ast.BinOp) and isinstance(e.op, (ast.Add, ast.Sub)):
            l, r = self.scalar(e.left), self.scalar(e.right)
            return None if l is None or r is None else (l + r if isinstance(e.op, ast.Add) else l - r)
        return None

    def min_value(self, lin):
        """Smallest value of a linear form when every symbolic length is >= 1 (None-safe: unknown atoms count as unbounded below)."""
        total = lin.d.get('1', 0)
        for k_, v_ in lin.d.items():
            if k_ == '1':
                continue
            if v_ < 0:
                return -10 ** 9
            total += v_          # the atom is at least 1
        return total

    def ev(self, e, env):
        if isinstance(e, ast.Name):
            if e.id not in env:
                raise ValueError('name %s' % e.id)
            return env[e.id]
        if isinstance(e, ast.Subscript):
            base = self.ev(e.value, env)
            raw = e.slice.elts if isinstance(e.slice, ast.Tuple) else [e.slice]
            items = []
            n_real = sum(1 for x in raw if not (isinstance(x, ast.Constant) and x.value is Ellipsis))
            pos = 0
            for x in raw:
                if isinstance(x, ast.Constant) and x.value is Ellipsis:
                    pos += base.ndim() - n_real
                    self.cur_len = None
                else:
                    self.cur_len = base.lens[pos] if pos < len(base.lens) else None
                    pos += 1
                items.append(self.item(x))
            self.cur_len = None
            return base.index(items)
        if isinstance(e, ast.Attribute) and e.attr == 'T':
            return self.ev(e.value, env).transpose()
        if isinstance(e, ast.Call):
            f = dotted(e.func) or ''
            if f == 'np.transpose':
                order = [const_value(x) for x in e.args[1].elts] if len(e.args) > 1 else None
                return self.ev(e.args[0], env).transpose(order)
            if isinstance(e.func, ast.Attribute) and e.func.attr == 'transpose':
                args = e.args[0].elts if e.args and isinstance(e.args[0], ast.Tuple) else e.args
                order = [const_value(x) for x in args] if args else None
                return self.ev(e.func.value, env).transpose(order)
            if f == 'np.swapaxes' or (isinstance(e.func, ast.Attribute) and e.func.attr == 'swapaxes' and len(e.args) == 2):
                v = self.ev(e.args[0] if f == 'np.swapaxes' else e.func.value, env)
                i, j = (const_value(x) for x in e.args[-2:])
                if not (isinstance(i, int) and isinstance(j, int)):
                    raise ValueError('expression `%s`' % unparse(e)[:60])
                order = list(range(v.ndim()))
                order[i], order[j] = order[j], order[i]
                return v.transpose(order)
            if f in ('np.maximum', 'np.minimum', 'np.add'):
                return Op(f[3:], self.ev(e.args[0], env), self.ev(e.args[1], env))
            if isinstance(e.func, ast.Attribute) and e.func.attr == 'copy':
                return self.ev(e.func.value, env)
            if f in ('np.dstack', 'np.concatenate', 'np.hstack', 'np.vstack'):
                parts = [self.ev(x, env) for x in e.args[0].elts]
                axis = {'np.dstack': 2, 'np.hstack': 1, 'np.vstack': 0}.get(f)
                if f == 'np.concatenate':
                    ax = q.arg(e, 1, 'axis')
                    axis = const_value(ax) if ax is not None else 0
                    if isinstance(axis, int) and axis < 0:
                        axis += parts[0].ndim()
                return Cat(axis, parts)
        raise ValueError('expression `%s`' % unparse(e)[:60])

    def run(self, fi, env):
        ret = None
        for s in fi.body():
            if isinstance(s, ast.Assign) and isinstance(s.targets[0], ast.Name):
                sc_ = self.scalar(s.value) if not isinstance(s.value, ast.Name) or s.value.id in self.scal else None
                if sc_ is not None and not (isinstance(s.value, ast.Name) and s.value.id in env):
                    self.scal[s.targets[0].id] = sc_
                    continue
                if isinstance(s.value, ast.Subscript) and isinstance(s.value.value, ast.Attribute) and s.value.value.attr == 'shape' and isinstance(s.value.value.value, ast.Name) and \
                        s.value.value.value.id in env and isinstance(const_value(s.value.slice), int):
                    self.scal[s.targets[0].id] = env[s.value.value.value.id].lens[const_value(s.value.slice)]
                    continue
                try:
                    env[s.targets[0].id] = self.ev(s.value, env)
                except ValueError:
                    if isinstance(s.value, ast.Attribute) and s.value.attr == 'shape':
                        continue
                    raise
            elif isinstance(s, ast.Assign) and isinstance(s.targets[0], ast.Tuple):
                # n_a, n_b, n_bins = x.shape : the names are the symbolic lengths of x
                if isinstance(s.value, ast.Attribute) and s.value.attr == 'shape' and isinstance(s.value.value, ast.Name) and s.value.value.id in env and \
                        len(s.targets[0].elts) == env[s.value.value.id].ndim():
                    for t_, ln_ in zip(s.targets[0].elts, env[s.value.value.id].lens):
                        if isinstance(t_, ast.Name):
                            self.scal[t_.id] = ln_
                continue
            elif isinstance(s, ast.Assign) and isinstance(s.targets[0], ast.Subscript) and isinstance(s.targets[0].value, ast.Name):
                nm = s.targets[0].value.id
                base = env[nm]
                if not isinstance(base, View):
                    raise ValueError('store into a derived value')
                items = [self.item(x) for x in (s.targets[0].slice.elts if isinstance(s.targets[0].slice, ast.Tuple) else [s.targets[0].slice])]
                tgt = base.index(items)
                val = self.ev(s.value, env)
                new = base.base + "'"
                self.defs[new] = (tgt, val, base.base)
                # every view of the same memory sees the store (`plane = c[..., 0]; plane[...] = v` modifies c)
                for nm_, v_ in list(env.items()):
                    if isinstance(v_, View) and v_.base == base.base:
                        env[nm_] = View(new, v_.axes, v_.lens, v_.fixed)
            elif isinstance(s, ast.Return):
                ret = self.ev(s.value, env)
                break
            elif isinstance(s, (ast.Assert, ast.Expr)):
                continue
            else:
                raise ValueError('statement `%s`' % unparse(s)[:50])
        return ret


class NegZero(Exception):
    pass


def a1_symmetrize(ctx):
    fi = ctx.repo.func(CCG, '_symmetrize_correlograms')
    N, Lb = L('N'), L('B')
    vm = VM()
    try:
        res = vm.run(fi, {fi.params[0]: View.of('c', [N, N, Lb])})
    except NegZero as e:
        ctx.violated('C15.A1', fi, 'slice bound -0', str(e))
        return
    except ValueError as e:
        # outside the domain; one idiom is still judged: values gathered along one triangle (np.triu_indices) stored along the other (np.tril_indices). Both
        # enumerate row by row, so the k-th upper pair (i, j) and the k-th lower pair are transposes of each other only up to 3 clusters
        tri_names = {}
        for a_ in fi.nodes(ast.Assign):
            if isinstance(a_.value, ast.Call) and dotted(a_.value.func) in ('np.triu_indices', 'np.tril_indices', 'np.triu_indices_from', 'np.tril_indices_from') and isinstance(a_.targets[0], ast.Name):
                tri_names[a_.targets[0].id] = 'upper' if 'triu' in dotted(a_.value.func) else 'lower'

        def side_of(e_):
            if isinstance(e_, ast.Name):
                return tri_names.get(e_.id)
            if isinstance(e_, ast.Call) and (dotted(e_.func) or '').startswith(('np.triu_indices', 'np.tril_indices')):
                return 'upper' if 'triu' in dotted(e_.func) else 'lower'
            return None
        crossed = None
        for a_ in fi.nodes(ast.Assign):
            t_ = a_.targets[0]
            if isinstance(t_, ast.Subscript) and side_of(t_.slice) and not (isinstance(t_.value, ast.Attribute) and t_.value.attr == 'T'):
                vx = fi.expand(a_.value)
                sides = {side_of(n_.slice) for n_ in ast.walk(vx) if isinstance(n_, ast.Subscript) and side_of(n_.slice)}
                if sides and side_of(t_.slice) not in sides:
                    crossed = a_
        if crossed is not None:
            ctx.violated('C15.A1', fi, crossed, 'values gathered along one triangle of the zero-lag plane are stored along the other one (`%s`): np.triu_indices and np.tril_indices both enumerate row '
                         'by row, so from 4 clusters on the k-th pairs are not transposes of each other and maxima land on the wrong (j, i)' % unparse(crossed)[:60])
            return
        ctx.undecided('C15.A1', fi, 'construct outside the index-map domain: %s' % e)
        return
    # specification
    c1 = View.of("c'", [N, N, Lb])
    neg = View("c'", [(1, 1, K(0)), (0, 1, K(0)), (2, -1, Lb - K(1))], [N, N, Lb - K(1)])
    spec = Cat(2, [neg, c1])
    plane = View.of('c', [N, N, Lb]).index(['ellipsis', ('int', 0)])
    spec_def = (plane.key(), Op('maximum', plane, plane.transpose()).key(), 'c')
    if not isinstance(res, Cat):
        ctx.violated('C15.A1', fi, 'result', 'the symmetrised array is %s, not the concatenation [negative lags | one-sided correlogram] along the lag axis' % res)
        return
    ctx.check(res.axis == 2, 'C15.A1', fi, 'concatenation axis', 'the two halves are joined along the lag axis', 'the halves are joined along axis %s' % res.axis)
    total = None
    for p in res.parts:
        ln = p.lens[2] if hasattr(p, 'lens') and len(p.lens) == 3 else None
        total = ln if total is None else (total + ln if ln is not None else None)
    want_total = Lb + Lb - K(1)
    ctx.check(total is not None and (total - want_total).is_zero(), 'C15.A1', fi, 'bins', 'the result has 2*half + 1 lag bins (B + B - 1 with B = half + 1 one-sided bins)',
              'the result has %s lag bins, expected 2*B - 1 = 2*half + 1' % total)
    if len(res.parts) == 2:
        a, b = res.parts
        ctx.check(b.key() == c1.key(), 'C15.A1', fi, 'non-negative lags', 'non-negative lags: out[i, j, half + k] = C\'[i, j, k] (one-sided counts unchanged)',
                  'non-negative lags are %s, expected the one-sided array itself' % b)
        ctx.check(a.key() == neg.key(), 'C15.A1', fi, 'negative lags', 'negative lags: out[i, j, half - k] = C\'[j, i, k] for k = 1..half (clusters swapped, lag reversed)',
                  'negative lags are %s, expected C\'[j, i, (B-1) - k] over B-1 bins (clusters swapped AND lags reversed, zero lag not repeated)' % a)
    else:
        ctx.violated('C15.A1', fi, 'parts', 'the result is made of %d parts, expected 2' % len(res.parts))
    d = vm.defs.get("c'")
    if d is None:
        ctx.violated('C15.A1', fi, 'zero lag', 'the zero-lag plane is not symmetrised (C[i,j,0] must become max(C[i,j,0], C[j,i,0]) before mirroring)')
    else:
        tgt, val, parent = d
        ok = tgt.key() == plane.key() and isinstance(val, Op) and val.key() == Op('maximum', plane, plane.transpose()).key() and parent == 'c'
        ctx.check(ok, 'C15.A1', fi, 'zero lag', 'zero lag: C\'[i, j, 0] = max(C[i, j, 0], C[j, i, 0]), other lags untouched',
                  'the zero-lag plane is set to %s at %s, expected max(C[i,j,0], C[j,i,0]) on the plane k = 0' % (val, tgt))
    ctx.check(set(vm.defs) <= {"c'"}, 'C15.A1', fi, 'stores', 'only the zero-lag plane of the input is modified', 'other parts of the input are overwritten: %s' % sorted(vm.defs))


def run(ctx):
    repo = ctx.repo
    cg = repo.func(CCG, 'correlograms')
    # ---- U1 shape run
    ReqClu = B('ReqClu')
    sigs = dict(COMMON_SIGS)

    def sig_as_array(S, e, a, kw, env):
        return a[0] if a else UNK
    sigs['_as_array'] = sig_as_array
    S = Shape(repo, sigs=sigs, inline_depth=2)
    env = {'spike_times': Arr((Spike,), SEC), 'spike_clusters': Arr((Spike,), Ix(Clu)), 'cluster_ids': Arr((ReqClu,), Ix(Clu)), 'sample_rate': RATE,
           'bin_size': SEC, 'window_size': SEC, 'symmetrize': BoolT(False)}
    S.run(cg, env)
    for r in S.reports:
        ctx.violated('C15.U1', r.fi, r.node, r.msg)
    if not S.reports:
        ctx.holds('C15.U1', cg, 'no index-space / dimension conflict in correlograms() (relative cluster indices, flat index components, units)', 'correlograms')
    # ---- structural rules, written as patterns with metavariables for the local names (insensitive to renaming, temporaries, operand order)
    P = Pat(cg)

    def dim_of(name):
        S2 = Shape(repo, sigs=sigs, inline_depth=2)
        e2 = dict(env)
        rets = []
        S2.fi_stack.append(cg)
        for st in cg.body():
            S2.stmt(st, e2, rets)
            if isinstance(st, ast.Assign) and unparse(st.targets[0]) == name:
                break
        S2.fi_stack.pop()
        return e2.get(name)

    def tri(rule, node, good, bad, ok_msg, bad_msg, und_msg):
        if good:
            ctx.holds(rule, cg, ok_msg, node)
        elif bad:
            ctx.violated(rule, cg, node, bad_msg)
        else:
            ctx.undecided(rule, cg, und_msg, node if not isinstance(node, str) else None)

    # samples and bin size (units by the shape engine on the variables found by role)
    s_samp = P.stmt('V_samples = ANY.astype(ANY)') or P.stmt('V_samples = np.floor(ANY).astype(ANY)')
    ss = dim_of(P.name('V_samples')) if s_samp is not None else None
    if isinstance(ss, Arr) and isinstance(ss.elem, Q):
        ctx.check(ss.elem.d() == {'samp': 1}, 'C15.U1', cg, s_samp, 'spike samples = times x sampling rate (samples)', 'spike samples are %s' % ss, value=getattr(ss, 'elem', ss))
    else:
        ctx.undecided('C15.U1', cg, 'the unit of the integer spike samples was not derived (%s)' % ss)
    s_bin = P.stmt('V_binsize = int(ANY)')
    bs = dim_of(P.name('V_binsize')) if s_bin is not None else None
    if isinstance(bs, Q):
        ctx.check(bs.d() == {'samp': 1}, 'C15.U1', cg, s_bin, 'bin size in samples = rate x bin size', 'the bin size is %s, expected samples' % bs)
    else:
        ctx.undecided('C15.U1', cg, 'the unit of the bin size in samples was not derived (%s)' % bs)
    # delay and lag
    s_diff = P.stmt('V_diff = _diff_shifted(E_src, V_shift)')
    lag_good = P.stmt('V_lag = V_diff // V_binsize') or P.stmt('V_lag = np.floor_divide(V_diff, V_binsize)')
    lag_bad = None
    if lag_good is None and s_diff is not None:
        for pat_ in ('V_lag = V_diff', 'V_lag = V_diff / V_binsize', 'V_lag = V_diff % V_binsize', 'V_lag = V_diff * V_binsize', 'V_lag = V_diff // ANY'):
            lag_bad = lag_bad or P.stmt(pat_)
    tri('C15.U1', lag_good or lag_bad or 'lag', lag_good is not None, lag_bad is not None, 'lag in bins = floor(delay in samples / bin size in samples)',
        'the lag is `%s`, not floor(delay / bin size in samples)' % (unparse(lag_bad.value) if lag_bad is not None else '?'), 'the statement computing the lag in bins was not recognised')
    wb = P.stmt('V_wbins = 2 * int(0.5 * window_size / bin_size) + 1') or P.stmt('V_wbins = 2 * int(window_size / bin_size / 2) + 1') or P.stmt('V_wbins = 2 * int(window_size / (2 * bin_size)) + 1')
    wb = wb or P.stmt('V_wbins = 2 * (int(window_size / bin_size) // 2) + 1') or P.stmt('V_wbins = 2 * int(window_size / bin_size * 0.5) + 1') or P.stmt('V_wbins = 2 * int(window_size * 0.5 / bin_size) + 1') or \
        P.stmt('V_wbins = 2 * int(window_size // (2 * bin_size)) + 1') or P.stmt('V_wbins = int(0.5 * window_size / bin_size) * 2 + 1') or P.stmt('V_wbins = 1 + 2 * int(0.5 * window_size / bin_size)')
    # a recognised WRONG form: the half-window is floor(window / (2 bin)); rounding the ratio (or taking its ceiling) lets lags beyond half the window be counted
    wb_any = P.stmt('V_wbins = 2 * E_half + 1') or P.stmt('V_wbins = E_half * 2 + 1') or P.stmt('V_wbins = 1 + 2 * E_half')
    wb_bad = None
    if wb is None and wb_any is not None:
        hx = cg.expand(wb_any.value)
        names_ = {n_.id for n_ in ast.walk(hx) if isinstance(n_, ast.Name)}
        calls_ = [(dotted(c_.func) or '') for c_ in ast.walk(hx) if isinstance(c_, ast.Call)]
        if {'window_size', 'bin_size'} <= names_ and any(c_ in ('round', 'np.round', 'np.rint', 'np.around', 'np.ceil', 'math.ceil', 'ceil') for c_ in calls_):
            wb_bad = wb_any
    tri('C15.U1', wb or wb_bad or 'window', wb is not None, wb_bad is not None, 'window in bins = 2*int(window / (2 bin)) + 1 (odd)',
        'the half-window in bins is `%s`: rounding (or a ceiling) instead of the floor of window / (2 bin) makes the window one bin wider for some window / bin ratios, so lags beyond half the window are counted'
        % (unparse(wb_bad.value)[:80] if wb_bad is not None else ''), 'the window size in bins is not in a recognised form')
    ca = repo.func(CCG, '_create_correlograms_array')
    PA = Pat(ca)
    z = PA.expr('np.zeros((%s, %s, E_half), REST)' % (ca.params[0], ca.params[0])) or PA.expr('np.zeros((%s, %s, E_half))' % (ca.params[0], ca.params[0]))
    half = z.args[0].elts[2] if z is not None else None
    w_ = ca.params[1]
    good_h = half is not None and Pat().any(['%s // 2 + 1' % w_, '(%s + 1) // 2' % w_, '(%s - 1) // 2 + 1' % w_], half)
    bad_h = half is not None and Pat().any(['%s // 2' % w_, w_, '%s // 2 - 1' % w_, '%s + 1' % w_, '(%s - 1) // 2' % w_], half)
    if z is None:
        ctx.undecided('C15.U1', ca, 'allocation of the one-sided count array not recognised')
    elif good_h:
        ctx.holds('C15.U1', ca, 'the one-sided array has (clusters, clusters, half + 1) entries', z)
    elif bad_h:
        ctx.violated('C15.U1', ca, z, 'the one-sided array has `%s` lag bins, expected half + 1 = winsize_bins // 2 + 1 (lags 0..half)' % unparse(half))
    else:
        ctx.undecided('C15.U1', ca, 'extent `%s` of the lag axis not recognised' % unparse(half), z)
    # relabelling (D1)
    s_rel = P.stmt('V_rel = _index_of(E_sc, E_lookup)')
    # roles of the flat index
    rmi = P.expr('np.ravel_multi_index((E_first, E_second, E_third), V_counts.shape)')
    if rmi is None or s_rel is None:
        ctx.undecided('C15.U1', cg, 'flat index np.ravel_multi_index((.., .., ..), <counts>.shape) not recognised')
    else:
        def xp(x, depth=0):
            """One level of local aliasing made transparent (`ci, cj = a[:-s][m], a[s:][m]`): a name with a single definition stands for that expression when it is a
            subscript chain (the role patterns are written on the relabelled array itself)."""
            if depth < 2 and isinstance(x, ast.Name):
                ds = cg.defs().get(x.id, [])
                if len(ds) == 1 and ds[0][0] == 'assign' and isinstance(ds[0][1], ast.Subscript) and not ds[0][3]:
                    return ds[0][1]
            return x
        e0, e1, e2 = (xp(x_) for x_ in rmi.args[0].elts)
        early = lambda x: P.m('V_rel[:-V_shift][V_m]', x) or P.m('V_rel[:len(V_rel) - V_shift][V_m]', x)
        late = lambda x: P.m('V_rel[V_shift:][V_m]', x)
        lagv = lambda x: (P.m('V_d', x) and P.stmt('V_d = V_lag[V_m]') is not None) or P.m('V_lag[V_m]', x)
        good = early(e0) and late(e1) and lagv(e2)
        bad = (late(e0) and early(e1)) or (not lagv(e2) and (lagv(e0) or lagv(e1)))
        tri('C15.U1', rmi, good, bad, 'flat index = (cluster of the earlier spike, cluster of the later spike, lag) in the shape of the count array',
            'the flat index is `%s`: the roles (earlier cluster, later cluster, lag of later minus earlier) are misplaced' % unparse(rmi.args[0])[:110],
            'components of the flat index not recognised')
        # every accumulation into the count array goes through such a flat index: a further site whose cluster roles are swapped counts a pair in the REVERSE direction too,
        # so a one-sided zero-lag count (and, after symmetrisation, the centre bin = max of the two) gets more than the pairs of that direction
        def role(x, depth=0):
            x = xp(x) if depth == 0 else xp(x)
            if early(x):
                return 'early'
            if late(x):
                return 'late'
            if depth < 3 and isinstance(x, ast.Subscript) and not isinstance(x.slice, ast.Slice):
                return role(x.value, depth + 1)
            return None
        sites = [c_ for c_ in cg.calls() if (dotted(c_.func) or '').endswith('ravel_multi_index') and c_.args and isinstance(c_.args[0], ast.Tuple) and len(c_.args[0].elts) == 3]
        extra = [c_ for c_ in sites if c_ is not rmi]
        for c_ in extra:
            r0, r1 = role(c_.args[0].elts[0]), role(c_.args[0].elts[1])
            if (r0, r1) == ('late', 'early'):
                ctx.violated('C15.U1', cg, c_, 'a second accumulation uses the flat index `%s` with the clusters of the later and earlier spike swapped: those pairs are counted in the reverse '
                             'direction as well, so C[j, i, lag] exceeds the number of pairs with the spike of j first' % unparse(c_.args[0])[:90])
            elif (r0, r1) == ('early', 'late'):
                ctx.undecided('C15.U1', cg, 'a second accumulation into the count array with the same roles (`%s`): whether pairs are counted twice is not decided' % unparse(c_.args[0])[:70], c_)
            else:
                ctx.undecided('C15.U1', cg, 'a second accumulation into the count array whose index components were not recognised (`%s`)' % unparse(c_.args[0])[:70], c_)
    ds = repo.func(CCG, '_diff_shifted')
    PD = Pat(ds)
    a_, st_ = ds.params[0], ds.params[1]
    rv = [x for _, x in returned(ds)]
    good = bool(rv) and any(PD.any(['%s[%s:] - %s[:len(%s) - %s]' % (a_, st_, a_, a_, st_), '%s[%s:] - %s[:-%s]' % (a_, st_, a_, st_)], x) for x in rv)
    bad = bool(rv) and any(PD.any(['%s[:len(%s) - %s] - %s[%s:]' % (a_, a_, st_, a_, st_), '%s[:-%s] - %s[%s:]' % (a_, st_, a_, st_)], x) for x in rv)
    if good:
        ctx.holds('C15.U1', ds, 'delay = later spike minus earlier spike (non-negative for sorted times)', rv[0])
    elif bad:
        ctx.violated('C15.U1', ds, rv[0], '_diff_shifted is `%s`: earlier minus later, the delays are negative' % unparse(rv[0]))
    else:
        ctx.undecided('C15.U1', ds, '_diff_shifted not in a recognised form', rv[0] if rv else None)
    # the delay is the difference of the INTEGER sample indices floor(t * rate): subtracting the float times first and truncating afterwards
    # can land just below the exact integer ((0.3 - 0.1) * 10 = 1.9999999999999998 -> 1) and moves the pair one bin down
    dcalls = [c for c in cg.calls() if dotted(c.func) == '_diff_shifted' and c.args]
    if not dcalls:
        ctx.undecided('C15.U1', cg, 'no call of _diff_shifted in correlograms(): provenance of the delay not recognised')
    for c in dcalls[:1]:
        arg = c.args[0]
        src = cg.expand(arg)
        casts = [n for n in ast.walk(src) if isinstance(n, ast.Call) and q.method_name(n) == 'astype' and n.args and unparse(n.args[0]) in ('np.int64', 'int', 'np.int32', 'np.intp', 'np.uint64', "'int64'")]
        casts += [n for n in ast.walk(src) if isinstance(n, ast.Call) and dotted(n.func) in ('np.floor', 'np.rint', 'np.round', 'np.int64')]
        floaty = isinstance(arg, ast.Name) and arg.id in cg.params and not casts
        if casts:
            ctx.holds('C15.U1', cg, 'the delay is the difference of integer sample indices (`%s`)' % unparse(src)[:70], c)
        elif floaty or (isinstance(src, ast.BinOp) and not casts) or (isinstance(src, ast.Call) and dotted(src.func) in ('np.asarray', 'np.array', '_as_array') and not casts):
            ctx.violated('C15.U1', cg, c, 'the delay is computed by subtracting `%s`, which is not converted to integer sample indices first: the floating-point difference of two '
                         'times can fall just below the exact value, and the pair is counted one bin too low after truncation' % unparse(arg))
        else:
            ctx.undecided('C15.U1', cg, 'operand of _diff_shifted (`%s`) not recognised as integer samples or float times' % unparse(src)[:60], c)
    # counts incremented with multiplicity
    inc = P.expr('_increment(V_counts.ravel(), V_indices)') or P.expr('_increment(V_counts.reshape(-1), V_indices)')
    fancy = [a for a in ast.walk(cg.node) if isinstance(a, ast.AugAssign) and isinstance(a.target, ast.Subscript) and const_value(a.value) == 1]
    tri('C15.U1', inc or (fancy[0] if fancy else 'increment'), inc is not None, bool(fancy), 'the counts are incremented in place at the flat indices (a view of the count array)',
        'the counts are incremented by `%s`: repeated flat indices are counted once' % (unparse(fancy[0]) if fancy else ''), 'increment of the counts not recognised')
    fi_inc = repo.func(CCG, '_increment')
    PI = Pat(fi_inc)
    bc_ = PI.stmt('V_bb = np.bincount(ANY)') or PI.stmt('V_bb = np.bincount(ANY, REST)')
    add_ = PI.stmts('ANY[:len(V_bb)] += V_bb') if bc_ is not None else []
    fancy_i = [a for a in ast.walk(fi_inc.node) if isinstance(a, ast.AugAssign) and isinstance(a.target, ast.Subscript) and const_value(a.value) == 1]
    uat = [c for c in fi_inc.calls() if dotted(c.func) == 'np.add.at']
    if (bc_ is not None and add_) or uat:
        ctx.holds('C15.U1', fi_inc, 'repeated indices are all counted (bincount / np.add.at)', bc_ or uat[0])
    elif fancy_i:
        ctx.violated('C15.U1', fi_inc, fancy_i[0], '_increment uses `%s`: NumPy applies a fancy-indexed increment once per distinct index, repeated indices are lost' % unparse(fancy_i[0]))
    else:
        ctx.undecided('C15.U1', fi_inc, '_increment not in a recognised form')
    # K1
    k_good = P.stmt('V_mask[:-V_shift][V_lag > V_wbins // 2] = False')
    k_bad = None
    if k_good is None:
        for pat_ in ('V_mask[:-V_shift][V_lag >= V_wbins // 2] = False', 'V_mask[:-V_shift][V_lag > V_wbins // 2 - 1] = False', 'V_mask[:-V_shift][V_lag > V_wbins] = False',
                     'V_mask[:-V_shift][V_lag >= V_wbins] = False', 'V_mask[:-V_shift][V_lag > V_wbins // 2 + 1] = False'):
            k_bad = k_bad or P.stmt(pat_)
    k_samp = None
    if k_good is None and k_bad is None and P.name('V_diff') is not None:
        # the same test written on the delay in SAMPLES: dropped iff delay >= T, and floor(delay / binsize) > half  <=>  delay >= (half + 1) * binsize. T is a closed
        # integer expression in (window bins, bin size): it is compared with the specification on a grid of odd window sizes x bin sizes (both sides are polynomials of
        # degree <= 1 in each variable there, so agreement on the 5 x 5 grid is identity, and one differing point is a counterexample)
        for op_, shift_ in (('>=', 0), ('>', 1)):
            st_ = P.stmt('V_mask[:-V_shift][%s %s E_bound] = False' % (P.name('V_diff'), op_))
            if st_ is not None:
                wn, bn = P.name('V_wbins') or 'winsize_bins', P.name('V_binsize') or 'binsize'
                bx = ast.fix_missing_locations(cg.expand(st_.targets[0].slice.comparators[0], stop=(wn, bn)))
                names_ = {n_.id for n_ in ast.walk(bx) if isinstance(n_, ast.Name)}
                if names_ <= {wn, bn} and not any(isinstance(n_, (ast.Call, ast.Attribute, ast.Subscript)) for n_ in ast.walk(bx)):
                    code_ = compile(ast.Expression(body=bx), '<bound>', 'eval')
                    diffs = [(w_, b_) for w_ in (1, 3, 5, 7, 9) for b_ in (1, 2, 3, 5, 7) if eval(code_, {'__builtins__': {}}, {wn: w_, bn: b_}) + shift_ != (w_ // 2 + 1) * b_]
                    k_samp = (st_, not diffs, diffs[:1])
                break
    if k_samp is not None:
        st_, ok_, where_ = k_samp
        tri('C15.K1', st_, ok_, not ok_, 'a pair is masked out only when its delay reaches (half window + 1) bins, i.e. its lag exceeds the half window',
            'pairs are dropped from a delay of `%s` samples on, which is not (half + 1) x bin size (e.g. window bins, bin size = %s): pairs whose lag equals the half window are lost or pairs '
            'beyond it are kept' % (unparse(st_.targets[0].slice)[:60], where_[0] if where_ else ''), '')
    else:
      tri('C15.K1', k_good or k_bad or 'mask', k_good is not None, k_bad is not None, 'a pair is masked out only when its lag exceeds the half window (strict >)',
          'pairs are dropped on `%s`: pairs whose lag equals the half window (the edge bin) must be kept, nothing else dropped' % (unparse(k_bad.targets[0]) if k_bad is not None else ''),
          'the edge test of the mask update was not recognised')
    wh = cg.nodes(ast.While)
    w_good = bool(wh) and (P.m('V_mask[:-V_shift].any()', wh[0].test) or P.m('np.any(V_mask[:-V_shift])', wh[0].test))
    w_bad = False
    if wh and not w_good and isinstance(wh[0].test, ast.BoolOp) and isinstance(wh[0].test.op, ast.And):
        # the mask test conjoined with another bound: the search can stop while some spike still has a partner inside the window
        w_bad = any(P.m('V_mask[:-V_shift].any()', v) or P.m('np.any(V_mask[:-V_shift])', v) for v in wh[0].test.values)
    tri('C15.K1', wh[0].test if wh else 'loop', w_good, w_bad, 'the shift grows while some spike still has a partner inside the window',
        'the loop stops on `%s`: an extra bound ends the search while spikes still have partners inside the window (spikes `shift` positions apart can be 0 samples apart '
        'when times repeat)' % (unparse(wh[0].test) if wh else ''), 'loop condition not recognised')
    sh = [x for x in cg.nodes(ast.AugAssign) if isinstance(x.target, ast.Name) and x.target.id == (P.name('V_shift') or '') and isinstance(x.op, ast.Add)]
    init = P.stmt('V_shift = 1')
    step = const_value(sh[0].value) if sh else None
    tri('C15.K1', sh[0] if sh else 'shift', bool(sh) and step == 1 and init is not None, bool(sh) and isinstance(step, int) and step != 1 or (bool(sh) and init is None and P.stmt('V_shift = 0') is not None),
        'shifts 1, 2, 3, ... are all visited', 'the shift does not run through 1, 2, 3, ... (step %s)' % step, 'progression of the shift not recognised')
    # D1
    cl = [i for i in cg.nodes(ast.If) if Pat().any(['cluster_ids is None', 'cluster_ids is not None', 'not cluster_ids is None', 'not (cluster_ids is not None)'], i.test)]
    if not cl:
        ctx.undecided('C15.D1', cg, 'the branch on `cluster_ids is None` was not found')
    else:
        neg = Pat().any(['cluster_ids is not None', 'not cluster_ids is None'], cl[0].test)
        none_b, given_b = (cl[0].orelse, cl[0].body) if neg else (cl[0].body, cl[0].orelse)
        gv = [a for a in given_b if isinstance(a, ast.Assign)]
        nv = [a for a in none_b if isinstance(a, ast.Assign)]
        g_good = any(Pat().any(['V_c = _as_array(cluster_ids)', 'V_c = np.asarray(cluster_ids)', 'V_c = np.array(cluster_ids)', 'V_c = cluster_ids'], a, stmt=True) for a in gv)
        g_bad = any(isinstance(n, ast.Call) and (dotted(n.func) or '').split('.')[-1] in ('sort', 'sorted', 'unique', '_unique', 'set') for a in gv for n in ast.walk(a.value))
        n_good = any(Pat().any(['V_c = _unique(spike_clusters)', 'V_c = np.unique(spike_clusters)'], a, stmt=True) for a in nv)
        tri('C15.D1', cl[0], g_good and n_good, g_bad, "the cluster axis follows the caller's cluster_ids in the caller's order (present ids when none is given)",
            "the caller's cluster list is re-ordered / de-duplicated before use: the output axes no longer follow the caller's order", 'cluster-list selection not recognised')
    if s_rel is None:
        ctx.undecided('C15.D1', cg, 'relabelling by _index_of(...) not found')
    else:
        look = s_rel.value.args[1]
        lx = cg.expand(look)
        clname = None
        for a in (cl[0].body + cl[0].orelse if cl else []):
            if isinstance(a, ast.Assign) and isinstance(a.targets[0], ast.Name):
                clname = a.targets[0].id
        good = isinstance(look, ast.Name) and look.id == clname and Pat().m('spike_clusters', s_rel.value.args[0])
        bad = any(isinstance(n, ast.Call) and (dotted(n.func) or '').split('.')[-1] in ('_unique', 'unique', 'sort', 'sorted') for n in ast.walk(lx)) and not good
        tri('C15.D1', s_rel, good, bad, 'spikes are relabelled by their position in that list', 'spikes are relabelled against `%s`, not against the caller-ordered cluster list' % unparse(look),
            'lookup table of the relabelling not recognised')
        nc = P.stmt('V_nc = len(%s)' % clname) or P.stmt('V_nc = %s.shape[0]' % clname) or P.stmt('V_nc = %s.size' % clname) if clname else None
        nc_any = P.stmt('V_nc2 = len(ANY)')
        tri('C15.D1', nc or nc_any or 'n_clusters', nc is not None, clname is not None and nc is None and nc_any is not None, 'the array has one row/column per listed cluster',
            'the number of clusters is `%s`, not the length of the cluster list' % (unparse(nc_any.value) if nc_any is not None else ''), 'the number of clusters was not recognised')
    sym = [(r_, x) for r_, x in returned(cg) if isinstance(x, ast.Call) and dotted(x.func) == '_symmetrize_correlograms']
    plain = [(r_, x) for r_, x in returned(cg) if not (isinstance(x, ast.Call) and dotted(x.func) == '_symmetrize_correlograms')]
    under = bool(sym) and any(isinstance(x, ast.If) and Pat().any(['symmetrize', 'symmetrize is True', 'not symmetrize'], x.test) for x in cg.ancestors(sym[0][0]))
    tri('C15.D1', sym[0][0] if sym else 'return', under and bool(plain), bool(returned(cg)) and (not sym or not plain),
        'the symmetrised array is returned when requested, the one-sided one otherwise', 'symmetrize does not select between the symmetrised and the one-sided result',
        'selection between the symmetrised and the one-sided result not recognised')
    from obligations.shape_tables import check_index_of
    check_index_of(ctx, 'C15.D1')
    # ---- A1
    a1_symmetrize(ctx)
    # ---- U2 firing rate
    fr = repo.func(CCG, 'firing_rate')
    PF = Pat(fr)
    rv = [x for _, x in returned(fr)]
    goods = ['V_bc * np.c_[V_bc] * (bin_size / (duration or 1.0))', 'V_bc * np.c_[V_bc] * (bin_size / (duration or 1))', 'np.outer(V_bc, V_bc) * (bin_size / (duration or 1.0))',
             'np.outer(V_bc, V_bc) * bin_size / (duration or 1.0)', 'V_bc[:, None] * V_bc * (bin_size / (duration or 1.0))', 'V_bc * V_bc[:, None] * (bin_size / (duration or 1.0))']
    bads = ['V_bc * V_bc * (bin_size / (duration or 1.0))', 'V_bc * np.c_[V_bc] * ((duration or 1.0) / bin_size)', 'V_bc * np.c_[V_bc] * bin_size', 'V_bc * np.c_[V_bc] * (bin_size * (duration or 1.0))',
            'V_bc * np.c_[V_bc]', 'V_bc * (bin_size / (duration or 1.0))']
    # the normaliser may be written on the raw name of the counts or through temporaries: match the unexpanded and the expanded return
    raw = [r_.value for r_ in fr.returns() if r_.value is not None]
    cand = raw + rv
    g = any(PF.any(goods, x) for x in cand)
    b_ = not g and any(PF.any(bads, x) for x in cand)
    if g:
        ctx.holds('C15.U2', fr, 'normaliser = (counts outer counts) x bin / duration', raw[-1])
    elif b_:
        ctx.violated('C15.U2', fr, raw[-1], 'the firing-rate normaliser is `%s`, not (counts outer counts) x bin_size / duration' % unparse(raw[-1]))
    else:
        ctx.undecided('C15.U2', fr, 'the firing-rate normaliser is not in a recognised form', raw[-1] if raw else None)
    S = Shape(repo, sigs=sigs, inline_depth=2)
    res = S.result(fr, {'spike_clusters': Arr((Spike,), Ix(Clu)), 'cluster_ids': Arr((ReqClu,), Ix(Clu)), 'bin_size': SEC, 'duration': SEC})
    for r_ in S.reports:
        ctx.violated('C15.U2', r_.fi, r_.node, '[firing_rate] %s' % r_.msg)
    if isinstance(res, Arr) and isinstance(res.elem, Q):
        ctx.check(res.elem.d() == {'cnt': 2}, 'C15.U2', fr, 'firing_rate dimension', 'counts^2 x (s / s): a pair count per bin', 'the normaliser has dimension %s, expected count^2 (bin / duration is a pure ratio)' % res.elem, value=getattr(res, 'elem', res))
    bcs = PF.stmt('V_bc = np.bincount(E_rel)') or PF.stmt('V_bc = np.bincount(E_rel, REST)')
    # the counts are POSITIONAL: entry p counts the spikes relabelled p (np.bincount of the relabelled spikes); the counts returned by np.unique are indexed by
    # the labels that occur, so an id without spikes in the middle of the list shifts every later count
    bc_name = PF.name('V_bc')
    if bcs is not None:
        rel_e = fr.expand(bcs.value.args[0])
        if any(isinstance(n, ast.Call) and dotted(n.func) == '_index_of' for n in ast.walk(rel_e)):
            ctx.holds('C15.U2', fr, 'per-cluster counts = np.bincount of the spikes relabelled by their position in the cluster list', bcs)
        elif Pat().m('spike_clusters', rel_e):
            ctx.violated('C15.U2', fr, bcs, 'the counts are np.bincount of the raw cluster ids, not of the spikes relabelled by position in the requested list')
        else:
            ctx.undecided('C15.U2', fr, 'operand of np.bincount not recognised', bcs)
    else:
        uq = [a for a in fr.nodes(ast.Assign) if isinstance(a.value, ast.Call) and dotted(a.value.func) == 'np.unique' and const_value(q.kwarg(a.value, 'return_counts')) is True]
        direct = [a for a in uq if isinstance(a.targets[0], ast.Tuple) and len(a.targets[0].elts) == 2 and isinstance(a.targets[0].elts[1], ast.Name) and
                  a.targets[0].elts[1].id == bc_name and not any(isinstance(x, ast.Assign) and isinstance(x.targets[0], ast.Subscript) and isinstance(x.targets[0].value, ast.Name)
                                                              and x.targets[0].value.id == bc_name for x in fr.nodes(ast.Assign))]
        if direct:
            uq = direct
            ctx.violated('C15.U2', fr, uq[0], 'the per-cluster counts are those of np.unique(..., return_counts=True): they are indexed by the labels that OCCUR, not by position in the '
                         'cluster list - a listed id without spikes shifts the counts of every later cluster')
        else:
            ctx.undecided('C15.U2', fr, 'computation of the per-cluster counts not recognised')
    # the list of requested ids = the table the spikes are relabelled against (whatever it is called)
    rl0 = Pat(fr).stmt('V_rel = _index_of(spike_clusters, E_lookup)')
    tables = ['cluster_ids'] + ([unparse(rl0.value.args[1])] if rl0 is not None and isinstance(rl0.value.args[1], ast.Name) else [])
    lens = [f_ % t_ for t_ in tables for f_ in ('len(%s)', '%s.size', '%s.shape[0]')]
    ml = q.arg(bcs.value, 2, 'minlength') if bcs is not None else None
    minlen = ml is not None and (Pat().any(lens, ml) or Pat().any(lens, fr.expand(ml, stop=tuple(tables))))
    ml_other = ml is not None and not minlen
    pad = [i for i in fr.nodes(ast.If) if any(PF.m('len(V_bc) < %s' % l_, i.test) or PF.m('len(V_bc) < %s' % l_, fr.expand(i.test, stop=(PF.name('V_bc') or '',))) for l_ in lens)]
    okp = bool(pad) and any(isinstance(c, ast.Call) and dotted(c.func) in ('np.concatenate', 'np.pad', 'np.append', 'np.hstack', 'np.r_') for c in ast.walk(pad[0])) and \
        any(isinstance(c, ast.Call) and dotted(c.func) == 'np.zeros' for c in ast.walk(pad[0]))
    if okp or minlen:
        ctx.holds('C15.U2', fr, 'counts of trailing ids without spikes are padded with zeros', pad[0] if pad else bcs)
    elif bcs is not None and not pad and not minlen and not ml_other and not any(isinstance(c, ast.Call) and dotted(c.func) in ('np.pad', 'np.concatenate') for c in fr.calls()):
        ctx.violated('C15.U2', fr, bcs, 'np.bincount without padding: when the last requested ids have no spikes the count vector is shorter than the list of ids')
    else:
        ctx.undecided('C15.U2', fr, 'zero padding of the per-cluster counts not recognised')
    rl = PF.stmt('V_rel = _index_of(spike_clusters, E_lookup)')
    if rl is None:
        ctx.undecided('C15.U2', fr, 'relabelling of the spikes in firing_rate not recognised')
    else:
        look = rl.value.args[1]
        good = Pat().m('cluster_ids', look)
        bad = any(isinstance(n, ast.Call) and (dotted(n.func) or '').split('.')[-1] in ('_unique', 'unique', 'sort', 'sorted') for n in ast.walk(fr.expand(look))) and not good
        if good:
            ctx.holds('C15.U2', fr, "counts follow the caller's cluster order", rl)
        elif bad:
            ctx.violated('C15.U2', fr, rl, "counts are indexed against `%s`, not against the caller's cluster_ids" % unparse(look))
        else:
            ctx.undecided('C15.U2', fr, 'lookup table of the counts not recognised', rl)


LEVEL_TEXT = ('Static check of the correlogram code: unit and index-space typing of correlograms() and firing_rate(), role rules for the flat '
              'index (earlier cluster, later cluster, lag = later - earlier), the strict edge test, caller-ordered relabelling, and a complete '
              'symbolic index-map derivation of _symmetrize_correlograms compared with C[i,j,k] = C[j,i,-k] / 2*half+1 bins / max at zero lag.')
LEVEL_NOTE = ('Trusted: NumPy slicing/transpose/dstack semantics as encoded in vlib/viewmap.py, ravel_multi_index component order. Not decided: the pair '
              'count of the shrinking-mask loop (sentence 1 of the property).')
TECHNIQUE = 'static analysis: unit/index-space typing plus a symbolic index-map (view algebra) abstract domain'
