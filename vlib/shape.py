"""shape: index-space, unit and provenance typing of NumPy code (DESIGN §4.1).

An abstract interpreter over function bodies. Arrays are typed by the *index space* of every axis, the kind of their
elements (an index into a space, a physical quantity with a dimension vector and provenance tags, a boolean, ...), and a few
provenance facts (sortedness; for permutations: which key they sort, in which direction, stably or not).

A report is made only for a DEFINITE conflict between two known abstract values (an axis of space S indexed with an index
into S' != S, elementwise combination of different spaces, a mask over another space, a dimension mismatch in +/-, ...).
Anything the transfer table does not cover evaluates to Unknown and can never produce a report.
Repo callees are analysed inline (bounded depth) unless the obligation supplies a signature for them.
"""
import ast
import itertools

from .front import unparse, dotted, const_value

_ids = itertools.count(1)


# =============================================================================================== domain
class Space:
    _reg = {}

    def __new__(cls, kind, key, parent=None, **info):
        k = (kind, key, id(parent) if parent is not None else None)
        if k in cls._reg:
            o = cls._reg[k]
            o.info.update(info)
            return o
        o = super().__new__(cls)
        o.kind, o.key, o.parent, o.info = kind, key, parent, dict(info)
        cls._reg[k] = o
        return o

    def chain(self):
        s, out = self, []
        while s is not None and isinstance(s, Space):
            out.append(s)
            s = s.parent
        return out

    def root(self):
        return self.chain()[-1]

    def __repr__(self):
        if self.kind == 'base':
            return str(self.key)
        if self.parent is not None:
            return '%s<%s>' % (self.kind, self.parent)
        return '%s#%s' % (self.kind, self.key if not isinstance(self.key, tuple) else 'x')


def B(name):
    return Space('base', name)


ONE = Space('one', 'one')
IMPRECISE = ('Slice', 'Diff', 'Range', 'Choice')


class Ix:
    def __init__(self, space, sentinel=False):
        self.space, self.sentinel = space, sentinel

    def __eq__(self, o):
        return isinstance(o, Ix) and o.space is self.space

    def __hash__(self):
        return hash(('Ix', id(self.space)))

    def __repr__(self):
        return 'Ix(%s%s)' % (self.space, '?' if self.sentinel else '')


class Q:
    def __init__(self, dim=(), tags=frozenset()):
        self.dim = tuple(sorted((n, e) for n, e in dict(dim).items() if e)) if not isinstance(dim, tuple) else tuple(sorted((n, e) for n, e in dim if e))
        self.tags = frozenset(tags)

    def __eq__(self, o):
        return isinstance(o, Q) and o.dim == self.dim

    def __hash__(self):
        return hash(('Q', self.dim))

    def d(self):
        return dict(self.dim)

    @property
    def poly(self):
        return any(n == '_poly' for n, _ in self.dim)

    def __repr__(self):
        d = '*'.join(n if e == 1 else '%s^%s' % (n, e) for n, e in self.dim) or '1'
        return 'Q(%s%s)' % (d, (' ' + ','.join(sorted(self.tags))) if self.tags else '')


def D(**kw):
    return tuple(sorted((k, v) for k, v in kw.items() if v))


def qmul(a, b, sign=1):
    d = {n: e for n, e in a.dim if n != '_poly'}
    for n, e in b.dim:
        if n != '_poly':
            d[n] = d.get(n, 0) + sign * e
    return Q(tuple(d.items()))


CNT = Q(D(cnt=1))


class BoolT:
    def __init__(self, val=None):
        self.val = val

    def __repr__(self):
        return 'Bool' if self.val is None else 'Bool(%s)' % self.val


class StrT:
    def __init__(self, val=None):
        self.val = val

    def __repr__(self):
        return 'Str(%r)' % self.val


class NoneT:
    def __repr__(self):
        return 'None'


class SizeOf:
    def __init__(self, space):
        self.space = space

    def __repr__(self):
        return 'Size(%s)' % self.space


class Unknown:
    def __repr__(self):
        return '?'


UNK = Unknown()


def is_unk(v):
    return isinstance(v, Unknown)


class Arr:
    def __init__(self, axes, elem, sorted_=False, src=None):
        self.axes, self.elem = tuple(axes), elem
        self.vid = next(_ids)
        self.sorted = sorted_
        self.src = src          # provenance note (e.g. name of the attribute it was read from)

    def like(self, axes=None, elem=None):
        r = Arr(self.axes if axes is None else axes, self.elem if elem is None else elem)
        return r

    def __repr__(self):
        return 'Arr%s:%s' % (list(self.axes), self.elem)


class PySlice:
    """A Python slice object held in a variable (`rows = slice(a, b)`); full = slice(None[, None[, None]])."""
    def __init__(self, full, text):
        self.full, self.text = full, text

    def __repr__(self):
        return 'PySlice(%s)' % ('all' if self.full else self.text)


class Rec:
    def __init__(self, fields):
        self.fields = dict(fields)

    def __repr__(self):
        return 'Rec%s' % self.fields


class Tup:
    def __init__(self, items):
        self.items = list(items)

    def __repr__(self):
        return 'Tup%s' % self.items


class ListT:
    def __init__(self, elem, axis=None, items=None):
        self.elem, self.axis = elem, axis
        self.vid = next(_ids)
        self.items = items

    def __repr__(self):
        return 'List[%s over %s]' % (self.elem, self.axis)


class DictT:
    def __init__(self, key, val):
        self.key, self.val = key, val

    def __repr__(self):
        return 'Dict[%s -> %s]' % (self.key, self.val)


class Report:
    def __init__(self, kind, node, msg, fi):
        self.kind, self.node, self.msg, self.fi = kind, node, msg, fi

    def text(self):
        return '%s:%d `%s`: %s' % (self.fi.qualname if self.fi else '?', getattr(self.node, 'lineno', 0), unparse(self.node)[:70], self.msg)

    def key(self):
        return (self.kind, self.fi.where if self.fi else '', unparse(self.node), self.msg)


def elem_of(v):
    return v.elem if isinstance(v, Arr) else v


# =============================================================================================== interpreter
class Shape:
    def __init__(self, repo, selfattrs=None, sigs=None, recv=None, inline_depth=3):
        self.repo = repo
        self.selfattrs = dict(selfattrs or {})       # attribute name -> abstract value, for `self.<attr>` (and typed receivers)
        self.sigs = dict(sigs or {})                 # dotted callee text or FuncInfo.qualname -> callable(S, call, args, kw, env)
        self.recv = dict(recv or {})                 # dotted expression text -> value
        self.reports = []
        self.unknown_calls = set()
        self.inline_depth = inline_depth
        self.fi_stack = []
        self.saved = []                              # (name text / value, array) for np.save / _save_npy sites
        self.notes = []

    # ------------------------------------------------------------------ reports
    def report(self, kind, node, msg):
        r = Report(kind, node, msg, self.fi_stack[-1] if self.fi_stack else None)
        if not any(x.key() == r.key() for x in self.reports):
            self.reports.append(r)

    # ------------------------------------------------------------------ entry
    def run(self, fi, env):
        self.fi_stack.append(fi)
        rets = []
        try:
            self.block(fi.body(), dict(env), rets)
        finally:
            self.fi_stack.pop()
        return rets

    def result(self, fi, env):
        rets = self.run(fi, env)
        # the main result is the LAST return statement that is informative (early returns are guards: `return {}`, `return None`, ...);
        # when a return statement was reached on several forked paths, the path that took the `if` bodies comes first and is kept
        seen_nodes, uniq = set(), []
        for node, v in rets:
            if id(node) in seen_nodes:
                continue
            seen_nodes.add(id(node))
            uniq.append((node, v))
        rets = uniq
        out = None
        for node, v in reversed(rets):
            if isinstance(v, NoneT) or is_unk(v):
                continue
            if isinstance(v, DictT) and is_unk(v.key) and is_unk(v.val):
                continue
            out = v
            break
        if out is None:
            for node, v in reversed(rets):
                if not isinstance(v, NoneT):
                    return v
        return out if out is not None else NoneT()

    def results(self, fi, env):
        """Every informative return value, one per (return statement, forked path): obligations that must hold on EVERY path use this instead of result()."""
        out = []
        for node, v in self.run(fi, env):
            if isinstance(v, NoneT) or is_unk(v) or (isinstance(v, DictT) and is_unk(v.key) and is_unk(v.val)):
                continue
            out.append((node, v))
        return out

    # ------------------------------------------------------------------ expressions
    def ev(self, e, env):
        m = getattr(self, 'ev_' + type(e).__name__, None)
        if isinstance(e, ast.BinOp):
            self._stored_result = False
            v = m(e, env)
            if self._stored_result and isinstance(v, Arr):
                v.stored = True
            self._stored_result = False
            return v
        return m(e, env) if m else UNK

    def ev_Constant(self, e, env):
        v = e.value
        if v is None:
            return NoneT()
        if isinstance(v, bool):
            return BoolT(v)
        if isinstance(v, (int, float)):
            return Q()
        if isinstance(v, str):
            return StrT(v)
        return UNK

    def ev_Name(self, e, env):
        if e.id in env:
            return env[e.id]
        fi = self.fi_stack[-1] if self.fi_stack else None
        if fi is not None and e.id in fi.module.consts and e.id not in fi.defs():
            return self.ev(fi.module.consts[e.id], {})
        return UNK

    def ev_Tuple(self, e, env):
        return Tup([self.ev(x, env) for x in e.elts])

    def ev_List(self, e, env):
        items = [self.ev(x, env) for x in e.elts]
        if items and all(isinstance(i, Ix) for i in items) and len({id(i.space) for i in items}) == 1:
            return Arr((Space('Lit', (e.lineno, e.col_offset)),), items[0])
        return ListT(items[0] if items else UNK, items=items)

    def ev_Attribute(self, e, env):
        s = dotted(e)
        if s and s in self.recv:
            return self.recv[s]
        if s in ('np.nan', 'np.inf', 'np.pi', 'np.NaN', 'np.e'):
            return Q()
        if isinstance(e.value, ast.Name) and e.value.id == 'self' and not isinstance(env.get('self'), Rec):
            if e.attr in self.selfattrs:
                return self.selfattrs[e.attr]
            return self.prop_or_unknown(e, env)
        if s and s.startswith('self.model.') and s.count('.') == 2:
            if e.attr in self.selfattrs:
                return self.selfattrs[e.attr]
            fi = self.fi_stack[-1] if self.fi_stack else None
            ci, _ = self.repo.receiver_class(fi, e.value) if fi is not None else (None, None)
            if ci is not None and len(self.fi_stack) <= self.inline_depth:
                p = self.repo.lookup_prop(ci, e.attr)
                if p and 'get' in p:
                    g = p['get']
                    return self.result(g, {g.params[0]: UNK})
                ca = self.repo.lookup_class_attr(ci, e.attr)
                if ca is not None:
                    return self.ev(ca, {})
            return UNK
        v = self.ev(e.value, env)
        if isinstance(v, Rec):
            return v.fields.get(e.attr, UNK)
        if isinstance(v, Arr):
            if e.attr == 'shape':
                return Tup([SizeOf(a) for a in v.axes])
            if e.attr == 'T':
                r = Arr(tuple(reversed(v.axes)), v.elem)
                if getattr(v, 'roles', None):
                    r.roles, r.role_name = tuple(reversed(v.roles)), getattr(v, 'role_name', 'matrix')
                return r
            if e.attr == 'size':
                return SizeOf(v.axes[0]) if len(v.axes) == 1 else Q()
            if e.attr == 'ndim':
                return Q()
            if e.attr == 'dtype':
                return UNK
        return UNK

    def prop_or_unknown(self, e, env):
        """`self.<property>`: analyse the getter inline."""
        fi = self.fi_stack[-1] if self.fi_stack else None
        if fi is None or fi.cls is None:
            return UNK
        p = self.repo.lookup_prop(fi.cls, e.attr)
        if p and 'get' in p and len(self.fi_stack) <= self.inline_depth:
            g = p['get']
            return self.result(g, {g.params[0]: env.get(fi.params[0], UNK)})
        return UNK

    def ev_UnaryOp(self, e, env):
        v = self.ev(e.operand, env)
        if isinstance(e.op, ast.Not):
            t = self.truth(e.operand, env)
            return BoolT(None if t is None else not t)
        if isinstance(e.op, ast.Invert) and isinstance(elem_of(v), BoolT):
            return v
        return v

    def ev_BoolOp(self, e, env):
        vs = [self.ev(v, env) for v in e.values]
        return vs[-1]

    def ev_IfExp(self, e, env):
        t = self.truth(e.test, env)
        if t is True:
            return self.ev(e.body, env)
        if t is False:
            return self.ev(e.orelse, env)
        a, b = self.ev(e.body, env), self.ev(e.orelse, env)
        return a if not isinstance(a, (Unknown, NoneT)) else b

    def ev_Compare(self, e, env):
        l = self.ev(e.left, env)
        r = self.ev(e.comparators[0], env)
        if isinstance(e.ops[0], (ast.Is, ast.IsNot, ast.In, ast.NotIn)):
            return BoolT()
        le, re_ = elem_of(l), elem_of(r)
        if isinstance(le, Ix) and isinstance(re_, Ix) and le.space is not re_.space and not is_unk(le.space) and not is_unk(re_.space):
            self.report('space', e, 'comparison of %s with %s' % (le, re_))
        if isinstance(le, Q) and isinstance(re_, Q) and le.dim and re_.dim and le.dim != re_.dim and not le.poly and not re_.poly:
            self.report('dim', e, 'comparison of quantities of different dimension: %s vs %s' % (le, re_))
        out = self.broadcast(e, l, r, BoolT())
        # `np.bincount(x) > 0` (!= 0, >= 1) marks exactly the ids that occur in x
        for side, other_node, ops in ((l, e.comparators[0], (ast.Gt, ast.NotEq)), (r, e.left, (ast.Lt, ast.NotEq))):
            if isinstance(out, Arr) and isinstance(side, Arr) and getattr(side, 'counts_of', None) is not None and \
                    ((isinstance(e.ops[0], ops) and const_value(other_node) == 0) or
                     (isinstance(e.ops[0], ast.GtE if side is l else ast.LtE) and const_value(other_node) == 1)):
                out.present_of = side.counts_of
        if isinstance(out, Arr):
            opn = type(e.ops[0]).__name__
            node = e
            # canonical orientation: the array operand on the left (`thr <= x` is recorded as `x >= thr`), so rules do not depend on the spelling
            if not isinstance(l, Arr) and isinstance(r, Arr) and opn in ('Lt', 'LtE', 'Gt', 'GtE', 'Eq', 'NotEq'):
                opn = {'Lt': 'Gt', 'LtE': 'GtE', 'Gt': 'Lt', 'GtE': 'LtE'}.get(opn, opn)
                le, re_ = re_, le
                node = ast.copy_location(ast.Compare(left=e.comparators[0], ops=[{'Lt': ast.Lt, 'LtE': ast.LtE, 'Gt': ast.Gt, 'GtE': ast.GtE, 'Eq': ast.Eq, 'NotEq': ast.NotEq}[opn]()],
                                                     comparators=[e.left]), e)
            out.mask = (opn, le, re_, node)
        return out

    # ---- arithmetic
    def ev_BinOp(self, e, env):
        l, r = self.ev(e.left, env), self.ev(e.right, env)
        if isinstance(l, Tup) and isinstance(r, Tup) and isinstance(e.op, ast.Add):
            return Tup(l.items + r.items)
        le, re_ = elem_of(l), elem_of(r)
        op = e.op
        el = UNK
        lit = isinstance(e.left, ast.Constant) or isinstance(e.right, ast.Constant)
        # id arrays kept in their on-disk dtype (the loader accepts uint16 / int32 ...): a product with a Python / NumPy scalar is formed in THAT dtype
        # and wraps silently once it exceeds the range; sums with a scalar keep the dtype (and the flag)
        for side, other, other_node in ((l, r, e.right), (r, l, e.left)):
            if isinstance(side, Arr) and getattr(side, 'stored', False) and isinstance(side.elem, Ix) and not isinstance(other, Arr):
                if isinstance(op, (ast.Mult, ast.LShift, ast.Pow)) and not isinstance(other_node, ast.Constant):
                    self.report('dtype', e, 'the id array `%s` is multiplied by `%s` in its on-disk dtype (uint16 / int32 are accepted by the loader): the combined key wraps around '
                                'silently once it exceeds that dtype; widen first (astype(np.int64)) or use np.ravel_multi_index' % (unparse(e.left if side is l else e.right), unparse(other_node)))
                elif isinstance(op, (ast.Add, ast.Sub)):
                    self._stored_result = True
        # np.max(ids) + 1 / ids.max() + 1  -> size of the id space
        if isinstance(le, Ix) and isinstance(op, ast.Add) and const_value(e.right) == 1 and isinstance(e.left, ast.Call) and \
                ((dotted(e.left.func) in ('np.max', 'np.amax')) or (isinstance(e.left.func, ast.Attribute) and e.left.func.attr == 'max')) and not isinstance(l, Arr):
            return SizeOf(le.space)
        if isinstance(le, SizeOf) or isinstance(re_, SizeOf):
            el = Q()
        elif isinstance(le, Q) and isinstance(re_, Q):
            kilo = 0

            def is_k(side):
                return isinstance(side, ast.Constant) and isinstance(side.value, (int, float)) and not isinstance(side.value, bool) and side.value in (1000, 1000.0)
            if isinstance(op, ast.Mult) and (is_k(e.left) or is_k(e.right)):
                kilo = 1
            elif isinstance(op, (ast.Div, ast.FloorDiv)) and is_k(e.right):
                kilo = -1
            elif isinstance(op, (ast.Div, ast.FloorDiv)) and is_k(e.left):
                kilo = 1
            if isinstance(op, ast.Mult):
                if le.poly and not re_.dim:
                    el = le
                elif re_.poly and not le.dim:
                    el = re_
                else:
                    el = Q(qmul(le, re_).dim, le.tags | re_.tags)
            elif isinstance(op, (ast.Div, ast.FloorDiv)):
                el = Q(qmul(le, re_, -1).dim, le.tags)
            elif isinstance(op, ast.Pow):
                k = const_value(e.right)
                el = Q(tuple((n, x * k) for n, x in le.dim)) if isinstance(k, int) else UNK
            elif isinstance(op, (ast.Add, ast.Sub)):
                if le.dim and re_.dim and le.dim != re_.dim and not le.poly and not re_.poly:
                    self.report('dim', e, 'sum/difference of quantities of different dimension: %s vs %s' % (le, re_))
                base = le if (le.dim or not re_.dim) else re_
                lt, rt = ''.join(sorted(le.tags)), ''.join(sorted(re_.tags))
                mx = [t[4:] for t in le.tags if t.startswith('max:')]
                mn = [t[4:] for t in re_.tags if t.startswith('min:')]
                if isinstance(op, ast.Sub) and mx and mn and mx == mn:
                    el = Q(base.dim, frozenset(t for t in le.tags if not t.startswith('max:')) | {'ptp:' + mx[0]})
                else:
                    amx = [t[7:] for t in le.tags if t.startswith('argmax:')]
                    amn = [t[7:] for t in re_.tags if t.startswith('argmin:')]
                    if isinstance(op, ast.Sub) and amx and amn and amx == amn:
                        el = Q(base.dim, frozenset({'p2t:' + amx[0]}))
                    else:
                        el = Q(base.dim, (le.tags & re_.tags) if (le.dim and re_.dim) else base.tags)
            else:
                el = Q()
            if kilo and isinstance(el, Q) and isinstance(op, (ast.Mult, ast.Div)):
                d = el.d()
                d['kilo'] = d.get('kilo', 0) + kilo
                el = Q(tuple(d.items()), el.tags)
        elif isinstance(le, Ix) and isinstance(re_, Q) and not re_.dim:
            el = le if isinstance(op, (ast.Add, ast.Sub)) and lit and False else Q()
        elif isinstance(le, Q) and not le.dim and isinstance(re_, Ix):
            el = Q()
        elif isinstance(le, Ix) and isinstance(re_, Ix):
            if isinstance(op, ast.Sub) and le.space is re_.space:
                tags = frozenset()
                lt = getattr(le, 'tag', None)
                rt = getattr(re_, 'tag', None)
                if lt and rt and lt[0] == 'argmax' and rt[0] == 'argmin' and lt[1] is rt[1]:
                    tags = frozenset({'p2t'})
                el = Q(D(samp=1), tags) if le.space.kind == 'base' and le.space.key == 'Samp' else Q(D(**{'d' + str(le.space): 1}), tags)
            elif le.space is not re_.space and not is_unk(le.space) and not is_unk(re_.space) and isinstance(op, (ast.Add, ast.Sub)):
                self.report('space', e, 'arithmetic between %s and %s' % (le, re_))
                el = UNK
            else:
                el = UNK
        elif isinstance(le, BoolT) or isinstance(re_, BoolT):
            el = BoolT() if isinstance(op, (ast.BitAnd, ast.BitOr, ast.BitXor)) else Q()
            out = self.broadcast(e, l, r, el)
            if isinstance(out, Arr):
                out.mask = (type(op).__name__, getattr(l, 'mask', None), getattr(r, 'mask', None), e)
            return out
        return self.broadcast(e, l, r, el)

    def broadcast(self, node, l, r, el):
        la = l.axes if isinstance(l, Arr) else ()
        ra = r.axes if isinstance(r, Arr) else ()
        n = max(len(la), len(ra))
        if n == 0:
            return el
        la = (None,) * (n - len(la)) + tuple(la)
        ra = (None,) * (n - len(ra)) + tuple(ra)
        out = []
        for a, b in zip(la, ra):
            if a is None or a is ONE:
                out.append(b if b is not None else ONE)
            elif b is None or b is ONE:
                out.append(a)
            elif a is b:
                out.append(a)
            elif is_unk(a) or is_unk(b):
                out.append(UNK)
            elif (a.kind in IMPRECISE or b.kind in IMPRECISE) and (a.root() is b.root() or a.root().kind in IMPRECISE or b.root().kind in IMPRECISE or
                                                                   is_unk(getattr(a.root(), 'parent', None)) or is_unk(getattr(b.root(), 'parent', None))):
                out.append(UNK)         # parts of the same axis whose extents are not tracked, or parts of an axis that is itself unknown: no verdict
            else:
                if (a.kind == 'Prefix' and a.parent is b) or (b.kind == 'Prefix' and b.parent is a):
                    self.report('extent', node, 'arrays over %s and %s are combined elementwise: the first stops at the highest id that occurs '
                                '(np.bincount without minlength), the second covers all ids' % (a, b))
                else:
                    self.report('space', node, 'elementwise operation between axes of different index spaces: %s vs %s' % (a, b))
                out.append(UNK)
        return Arr(tuple(out), el)

    # ---- indexing
    def is_newaxis(self, i):
        return (isinstance(i, ast.Attribute) and i.attr == 'newaxis') or (isinstance(i, ast.Constant) and i.value is None)

    def index(self, node, base, idx_nodes, env):
        n_real = sum(1 for i in idx_nodes if not (isinstance(i, ast.Constant) and i.value is Ellipsis) and not self.is_newaxis(i))
        axes = list(base.axes)
        pos = 0
        slots = []
        comp_tags = []
        keep_roles = None
        keep_sorted = base.sorted
        for i in idx_nodes:
            if isinstance(i, ast.Constant) and i.value is Ellipsis:
                k = len(axes) - n_real
                for a in axes[pos:pos + k]:
                    slots.append(('basic', a))
                pos += k
                continue
            if self.is_newaxis(i):
                slots.append(('basic', ONE))
                continue
            if pos >= len(axes):
                self.report('rank', node, 'too many indices for %s' % base)
                return UNK
            ax = axes[pos]
            pos += 1
            if isinstance(i, ast.Slice):
                if i.lower is None and i.upper is None:
                    if i.step is not None and const_value(i.step) == -1:
                        sp = Space('Rev', base.vid, ax)
                        slots.append(('basic', sp))
                        keep_sorted = False
                    elif i.step is None:
                        slots.append(('basic', ax))
                    else:
                        slots.append(('basic', Space('Slice', unparse(i), ax)))
                else:
                    slots.append(('basic', Space('Slice', unparse(i), ax)))
                continue
            v = self.ev(i, env)
            if isinstance(v, PySlice):
                # a slice object held in a variable: slice(None) keeps the axis, any other slice is a contiguous part of it IN THE ORDER OF THE AXIS
                slots.append(('basic', ax if v.full else Space('Slice', v.text, ax)))
                continue
            if isinstance(v, Ix):
                self.check_ix(node, ax, v, i)
                slots.append(('adv', []))
                continue
            if isinstance(v, (Q, SizeOf)):
                k = const_value(i)
                if isinstance(k, int) and not is_unk(ax) and ax.kind == 'base' and ax.key in ('XY', 'PC'):
                    comp_tags.append('%s:%d' % (ax.key.lower(), k))
                slots.append(('adv', []))
                continue
            if isinstance(v, Arr) and isinstance(v.elem, BoolT):
                if v.axes and not is_unk(v.axes[0]) and not is_unk(ax) and v.axes[0] is not ax:
                    self.report('space', node, 'boolean mask over %s applied to an axis of space %s' % (v.axes[0], ax))
                po = getattr(v, 'present_of', None)
                if po is not None and isinstance(po.elem, Ix) and not is_unk(ax) and (ax is po.elem.space or (ax.kind == 'Prefix' and ax.parent is po.elem.space)):
                    # counts[counts > 0] / sums[counts > 0]: one entry per id that occurs, in increasing order = the axis of np.unique(x)
                    slots.append(('adv', [Space('Present', po.vid, None, of=po)]))
                    continue
                sub_ = Space('Sub', v.vid, ax, mask=getattr(v, 'mask', None))
                if getattr(v, 'member_of', None) is not None:
                    sub_.info['of'] = v.member_of          # x[np.isin(x, y)]: the restriction is by membership in y (same provenance as intersect1d(x, y))
                slots.append(('adv', [sub_]))
                continue
            if isinstance(v, Arr) and isinstance(v.elem, Ix):
                self.check_ix(node, ax, v.elem, i)
                slots.append(('adv', list(v.axes)))
                keep_sorted = False
                if not is_unk(ax) and ax.kind == 'base':
                    comp_tags.append('gather:%s' % ax)      # values looked up per element in a table over `ax`
                continue
            if isinstance(v, Arr) and isinstance(v.elem, Q) and not v.elem.dim:
                slots.append(('adv', list(v.axes)))
                continue
            if isinstance(v, Tup) and v.items and v.items[-1] == 'ix_':
                a0, a1 = v.items[0], v.items[1]
                for a_, ax_ in ((a0, ax), (a1, axes[pos] if pos < len(axes) else UNK)):
                    if isinstance(a_, Arr) and isinstance(a_.elem, Ix):
                        self.check_ix(node, ax_, a_.elem, i)
                pos += 1
                slots.append(('basic', a0.axes[0] if isinstance(a0, Arr) else UNK))
                slots.append(('basic', a1.axes[0] if isinstance(a1, Arr) else UNK))
                keep_roles = getattr(base, 'roles', None) if len(idx_nodes) == 1 else None
                continue
            slots.append(('adv', [UNK]))
        for a in axes[pos:]:
            slots.append(('basic', a))
        adv_pos = [k for k, s in enumerate(slots) if s[0] == 'adv']
        out = []
        if adv_pos:
            advshape = []
            for k in adv_pos:
                sp = slots[k][1]
                if len(sp) > len(advshape):
                    advshape = list(sp)
            contiguous = adv_pos == list(range(adv_pos[0], adv_pos[-1] + 1))
            if contiguous:
                for k, s in enumerate(slots):
                    if k == adv_pos[0]:
                        out.extend(advshape)
                    if s[0] == 'basic':
                        out.append(s[1])
            else:
                out.extend(advshape)
                out.extend(s[1] for s in slots if s[0] == 'basic')
        else:
            out = [s[1] for s in slots]
        el = base.elem
        if comp_tags and isinstance(el, Q):
            el = Q(el.dim, el.tags | set(comp_tags))
        if not out:
            return el
        r = Arr(tuple(out), el)
        r.sorted = keep_sorted and len(out) == 1
        if keep_roles:
            r.roles, r.role_name = keep_roles, getattr(base, 'role_name', 'matrix')
            r.subblock = True           # m[np.ix_(rows, cols)] of a role matrix
        return r

    def check_ix(self, node, axis, ix, inode):
        sp = ix.space
        if is_unk(axis) or is_unk(sp) or axis is None:
            return
        if axis.kind == 'Prefix' and axis.parent is sp:
            return
        if axis.kind == 'Ext' and axis.parent is sp:
            return
        if axis is not sp:
            self.report('space', node, 'an axis of index space %s is indexed with `%s`, which holds indices into %s' % (axis, unparse(inode)[:40], sp))

    def ev_Subscript(self, e, env):
        base = self.ev(e.value, env)
        if isinstance(base, Tup):
            k = const_value(e.slice)
            if isinstance(k, int) and -len(base.items) <= k < len(base.items):
                return base.items[k]
            if isinstance(e.slice, ast.Slice):
                lo = const_value(e.slice.lower) if e.slice.lower is not None else None
                hi = const_value(e.slice.upper) if e.slice.upper is not None else None
                return Tup(base.items[slice(lo, hi)])
            return UNK
        if isinstance(base, ListT):
            if isinstance(e.slice, ast.Slice):
                return base
            k = const_value(e.slice)
            if base.items is not None and isinstance(k, int) and -len(base.items) <= k < len(base.items):
                return base.items[k]
            return base.elem
        if isinstance(base, DictT):
            k = self.ev(e.slice, env)
            if isinstance(base.key, Ix) and isinstance(k, Ix) and base.key.space is not k.space and not is_unk(k.space):
                self.report('space', e, 'a dictionary keyed by %s is looked up with a key of kind %s' % (base.key, k))
            return base.val
        if isinstance(base, Rec):
            k = const_value(e.slice)
            return base.fields.get(k, UNK) if isinstance(k, str) else UNK
        if not isinstance(base, Arr):
            return UNK
        idx = e.slice.elts if isinstance(e.slice, ast.Tuple) else [e.slice]
        out = self.index(e, base, idx, env)
        if isinstance(out, Arr) and getattr(base, 'stored', False):
            out.stored = True           # a selection of an array kept in its on-disk dtype has that dtype
        return out

    # ---- calls
    def axis_of(self, e, kw, pos=None):
        if 'axis' in kw:
            v = const_value(kw['axis'])
            return v if isinstance(v, int) else 'dyn'
        if pos is not None and len(e.args) > pos:
            v = const_value(e.args[pos])
            return v if isinstance(v, int) else 'dyn'
        return None

    def ev_Call(self, e, env):
        f = dotted(e.func) or unparse(e.func)
        kw = {k.arg: k.value for k in e.keywords if k.arg}
        fi = self.fi_stack[-1] if self.fi_stack else None
        # ---- signatures supplied by the obligation
        if f in self.sigs:
            return self.sigs[f](self, e, [self.ev(a, env) for a in e.args], kw, env)
        tg = self.repo.resolve_call(fi, e, virtual=False) if fi is not None else []
        if tg:
            t = tg[0]
            if t.qualname in self.sigs:
                return self.sigs[t.qualname](self, e, [self.ev(a, env) for a in e.args], kw, env)
            if len(self.fi_stack) <= self.inline_depth and t.name != '__init__':
                return self.inline(t, e, env, kw)
        args = [self.ev(a, env) for a in e.args]
        r = self.method_call(e, f, args, kw, env)
        if r is not None:
            return r
        r = self.numpy_call(e, f, args, kw, env)
        if r is not None:
            return r
        r = self.builtin_call(e, f, args, kw, env)
        if r is not None:
            return r
        self.unknown_calls.add(f)
        return UNK

    def inline(self, t, call, env, kw):
        cenv = {}
        params = list(t.params)
        if t.is_method:
            recvv = UNK
            if isinstance(call.func, ast.Attribute):
                if isinstance(call.func.value, ast.Name):
                    recvv = env.get(call.func.value.id, UNK)
            cenv[params[0]] = recvv if not is_unk(recvv) else env.get('self', UNK)
            params = params[1:]
        for p, a in zip(params, call.args):
            cenv[p] = self.ev(a, env)
        for k, v in kw.items():
            if k in params or k in t.kwonly:
                cenv[k] = self.ev(v, env)
        for p, d in t.defaults().items():
            if p not in cenv:
                cenv[p] = self.ev(d, {})
        for p in params:
            cenv.setdefault(p, UNK)
        return self.result(t, cenv)

    def method_call(self, e, f, args, kw, env):
        if not isinstance(e.func, ast.Attribute):
            return None
        recv = self.ev(e.func.value, env)
        m = e.func.attr
        if isinstance(recv, Arr):
            if m in ('max', 'min', 'sum', 'mean', 'std', 'prod'):
                return self.reduce(e, recv, self.axis_of(e, kw, 0), m)
            if m in ('argmax', 'argmin'):
                return self.argred(e, recv, self.axis_of(e, kw, 0), m)
            if m in ('astype', 'copy', 'squeeze'):
                if m == 'astype' and e.args and isinstance(e.args[0], ast.Attribute) and e.args[0].attr == 'dtype' and isinstance(recv.elem, Ix):
                    other = self.ev(e.args[0].value, env)
                    if isinstance(other, Arr) and other is not recv and isinstance(other.elem, Ix) and other.vid != recv.vid:
                        # ids cast to the dtype of ANOTHER id array: astype wraps silently, an id outside that dtype becomes a valid id of it
                        self.report('dtype', e, 'ids `%s` are cast to the dtype of `%s`: astype wraps silently, so an id that does not fit that dtype (uint16 / int32 are accepted '
                                    'by the loader) becomes another, valid id' % (unparse(e.func.value), unparse(e.args[0].value)))
                r = Arr(recv.axes, recv.elem)
                r.sorted = recv.sorted
                return r
            if m in ('flatten', 'ravel'):
                return Arr((Space('Prod', tuple(id(a) for a in recv.axes), None, parts=recv.axes),), recv.elem)
            if m == 'reshape':
                t = args[0] if args else UNK
                if isinstance(t, Tup) and all(isinstance(x, SizeOf) for x in t.items):
                    return Arr(tuple(x.space for x in t.items), recv.elem)
                return Arr((UNK,) * (len(t.items) if isinstance(t, Tup) else 1), recv.elem)
            if m == 'transpose':
                if e.args and isinstance(e.args[0], ast.Tuple):
                    order = [const_value(x) for x in e.args[0].elts]
                    if all(isinstance(o, int) for o in order) and len(order) == len(recv.axes):
                        return Arr(tuple(recv.axes[i] for i in order), recv.elem)
                    return UNK
                return Arr(tuple(reversed(recv.axes)), recv.elem)
            if m == 'tolist':
                return ListT(recv.elem, axis=recv.axes[0] if recv.axes else None)
            if m in ('any', 'all'):
                return BoolT()
            if m == 'item':
                return recv.elem
            return None
        if isinstance(recv, ListT):
            if m == 'append' and args:
                if is_unk(recv.elem):
                    recv.elem = args[0]
                recv.items = None
                return NoneT()
            if m == 'extend':
                if is_unk(recv.elem) and args:
                    a_ = args[0]
                    el = a_.elem if isinstance(a_, (Arr, ListT)) else None
                    if el is not None:
                        recv.elem = el
                recv.items = None
                return NoneT()
            return None
        if isinstance(recv, DictT):
            if m == 'items':
                return ListT(Tup([recv.key, recv.val]))
            if m == 'keys':
                return ListT(recv.key)
            if m == 'values':
                return ListT(recv.val)
            if m == 'get':
                k = args[0] if args else None
                if isinstance(recv.key, Ix) and isinstance(k, Ix) and recv.key.space is not k.space and not is_unk(k.space) and not is_unk(recv.key.space):
                    self.report('space', e, 'a dictionary keyed by %s is looked up with a key of kind %s' % (recv.key, k))
                return recv.val
        if isinstance(recv, Rec) and m == 'get' and args and isinstance(args[0], StrT):
            return recv.fields.get(args[0].val, args[1] if len(args) > 1 else NoneT())
        return None

    def numpy_call(self, e, f, args, kw, env):
        np_ = f[3:] if f.startswith('np.') else None
        if np_ is None:
            return None
        a0 = args[0] if args else UNK
        if np_ in ('max', 'min', 'sum', 'mean', 'amax', 'amin', 'nanmax', 'nanmin', 'nansum', 'nanmean', 'std', 'prod'):
            how = {'amax': 'max', 'amin': 'min', 'nanmax': 'max', 'nanmin': 'min', 'nansum': 'sum', 'nanmean': 'mean'}.get(np_, np_)
            return self.reduce(e, a0, self.axis_of(e, kw, 1), how)
        if np_ in ('argmax', 'argmin'):
            return self.argred(e, a0, self.axis_of(e, kw, 1), np_)
        if np_ == 'ptp':
            ax = self.axis_of(e, kw, 1)
            if isinstance(a0, Arr) and isinstance(ax, int) and isinstance(a0.elem, Q):
                axes = list(a0.axes)
                red = axes.pop(ax)
                return Arr(tuple(axes), Q(a0.elem.dim, a0.elem.tags | {'ptp:%s' % red}))
            return UNK
        if np_ in ('abs', 'absolute', 'ascontiguousarray', 'asarray', 'array', 'atleast_1d', 'atleast_2d', 'atleast_3d', 'round', 'around', 'rint', 'floor', 'ceil', 'trunc', 'fix',
                   'copy', 'squeeze', 'nan_to_num', 'float32', 'float64', 'int32', 'int64', 'intp', 'uint64', 'uint32'):
            if isinstance(a0, ListT) and np_ in ('array', 'asarray'):
                if isinstance(a0.elem, Arr):
                    return Arr((a0.axis or Space('ListAx', a0.vid),) + a0.elem.axes, a0.elem.elem)
                return Arr((a0.axis or Space('ListAx', a0.vid),), a0.elem)
            if isinstance(a0, Arr):
                r = Arr(a0.axes, a0.elem)
                r.sorted = a0.sorted and np_ != 'abs'
                return r
            return a0
        if np_ == 'square':
            q = elem_of(a0)
            if isinstance(q, Q):
                el = Q(tuple((n, x * 2) for n, x in q.dim))
                return Arr(a0.axes, el) if isinstance(a0, Arr) else el
            return UNK
        if np_ in ('maximum', 'minimum') and len(args) >= 2:
            return self.broadcast(e, args[0], args[1], elem_of(args[0]) if not isinstance(elem_of(args[0]), Unknown) else elem_of(args[1]))
        if np_ in ('isnan', 'isinf', 'isfinite', 'logical_not'):
            return Arr(a0.axes, BoolT()) if isinstance(a0, Arr) else BoolT()
        if np_ in ('isin', 'in1d', 'intersect1d', 'setdiff1d', 'setxor1d') and len(args) >= 2 and const_value(kw.get('assume_unique')) is True:
            # assume_unique=True is a promise about BOTH operands; a flattened table (one entry per row and slot) repeats its values
            for k_, op_ in enumerate(args[:2]):
                if isinstance(op_, Arr) and len(op_.axes) == 1 and getattr(op_.axes[0], 'kind', None) == 'Prod':
                    self.report('unique', e, '`%s` is called with assume_unique=True although its operand `%s` is a flattened table whose values repeat: NumPy\'s sort-based '
                                'path then misclassifies the repeated values' % (f, unparse(e.args[k_])))
        if np_ in ('isin', 'in1d') and len(args) >= 2:
            ea = elem_of(a0)
            b = args[1]
            eb = b.elem if isinstance(b, (Arr, ListT)) else b
            if isinstance(ea, Ix) and isinstance(eb, Ix) and ea.space is not eb.space:
                self.report('space', e, 'membership test of %s in a set of %s' % (ea, eb))
            if isinstance(a0, Arr):
                out_ = Arr(a0.axes, BoolT())
                out_.mask = ('isin', ea, eb, e, b if isinstance(b, Arr) else None)         # 5th item: the member set (its own restrictions restrict the result)
                if isinstance(b, Arr):
                    out_.member_of = b
                return out_
            return BoolT()
        if np_ == 'where' and len(args) == 3:
            cands = [x for x in args[1:] if isinstance(x, Arr)] or [x for x in args[1:] if isinstance(x, Ix)]
            pick = None
            for x in cands:
                if isinstance(elem_of(x), Ix):
                    pick = x
            pick = pick or (cands[0] if cands else None)
            if pick is None:
                return UNK
            axes = pick.axes if isinstance(pick, Arr) else (a0.axes if isinstance(a0, Arr) else ())
            return Arr(axes, elem_of(pick)) if axes else elem_of(pick)
        if np_ in ('nonzero', 'where', 'flatnonzero'):
            if isinstance(a0, Arr) and len(args) == 1:
                out = []
                for ax in a0.axes:
                    tgt = ax.parent if (not is_unk(ax) and ax.kind == 'Prefix') else ax     # positions in a bincount are the ids themselves
                    r = Arr((Space('Sub', a0.vid, ax, mask=getattr(a0, 'mask', None)),), Ix(tgt))
                    r.sorted = len(a0.axes) == 1
                    out.append(r)
                return out[0] if np_ == 'flatnonzero' else Tup(out)
            return UNK
        if np_ in ('intersect1d', 'union1d', 'setdiff1d') and len(args) >= 2:
            a, b = args[0], args[1]
            if isinstance(a, Arr) and isinstance(b, Arr) and isinstance(a.elem, Ix) and isinstance(b.elem, Ix):
                if a.elem.space is not b.elem.space:
                    self.report('space', e, '%s of %s with %s' % (np_, a.elem, b.elem))
                r = Arr((Space('Isect', (a.vid, b.vid), None, of=(a, b), op=np_),), Ix(a.elem.space, a.elem.sentinel and b.elem.sentinel))
                r.sorted = True
                return r
            if isinstance(a, Arr) and isinstance(a.elem, Ix):
                r = Arr((Space('Isect', (a.vid, id(b)), None, of=(a, b), op=np_),), a.elem)
                r.sorted = True
                return r
            return UNK
        if np_ == 'unique':
            if isinstance(a0, Arr):
                sp = Space('Present', a0.vid, None, of=a0)
                r = Arr((sp,), a0.elem)
                r.sorted = True
                if 'return_counts' in kw:
                    return Tup([r, Arr((sp,), CNT)])
                return r
            return UNK
        if np_ == 'argsort':
            if isinstance(a0, Arr) and len(a0.axes) == 1:
                kind = const_value(kw['kind']) if 'kind' in kw else None
                neg = isinstance(e.args[0], ast.UnaryOp) and isinstance(e.args[0].op, ast.USub)
                sp = Space('Perm', a0.vid, a0.axes[0], keyelem=a0.elem, dir='desc' if neg else 'asc', stable=kind in ('mergesort', 'stable'), keyvid=a0.vid)
                return Arr((sp,), Ix(a0.axes[0]))
            return UNK
        if np_ == 'sort':
            if isinstance(a0, Arr):
                r = Arr(tuple(Space('Sorted', a0.vid, a) for a in a0.axes), a0.elem)
                r.sorted = True
                return r
            return UNK
        if np_ in ('zeros_like', 'ones_like', 'empty_like', 'full_like'):
            return Arr(a0.axes, Q(D(_poly=next(_ids)))) if isinstance(a0, Arr) else UNK
        if np_ in ('zeros', 'empty', 'ones', 'full'):
            t = a0
            if isinstance(t, SizeOf):
                t = Tup([t])
            if isinstance(t, Tup):
                return Arr(tuple(x.space if isinstance(x, SizeOf) else UNK for x in t.items), Q(D(_poly=next(_ids))))
            return Arr((UNK,), Q(D(_poly=next(_ids))))
        if np_ == 'arange':
            if len(args) == 1 and isinstance(args[0], SizeOf):
                r = Arr((args[0].space,), Ix(args[0].space))
                r.sorted = True
                return r
            if len(args) == 2 and isinstance(args[1], SizeOf) and const_value(e.args[0]) == 0:
                r = Arr((args[1].space,), Ix(args[1].space))
                r.sorted = True
                return r
            if len(args) == 2 and isinstance(args[1], SizeOf):
                r = Arr((Space('Range', (e.lineno, e.col_offset), args[1].space),), Ix(args[1].space))
                r.sorted = True
                return r
            if len(args) >= 2 and isinstance(args[1], Q):
                return Arr((Space('Range', (e.lineno, e.col_offset)),), Q())
            return Arr((UNK,), Q())
        if np_ == 'tensordot' and len(args) >= 2 and isinstance(args[0], Arr) and isinstance(args[1], Arr):
            a, b = args[0], args[1]
            axn = kw.get('axes') if 'axes' in kw else (e.args[2] if len(e.args) > 2 else None)
            ia = ib = None
            if isinstance(axn, ast.Tuple) and len(axn.elts) == 2:
                ia, ib = const_value(axn.elts[0]), const_value(axn.elts[1])
            elif axn is not None and const_value(axn) == 1:
                ia, ib = len(a.axes) - 1, 0
            if isinstance(ia, int) and isinstance(ib, int) and -len(a.axes) <= ia < len(a.axes) and -len(b.axes) <= ib < len(b.axes):
                ia %= len(a.axes)
                ib %= len(b.axes)
                if a.axes[ia] is not b.axes[ib] and not is_unk(a.axes[ia]) and not is_unk(b.axes[ib]):
                    self.report('space', e, 'tensordot contracts an axis of space %s with an axis of space %s' % (a.axes[ia], b.axes[ib]))
                self.role_check(e, b, ib)
                self.role_check(e, a, ia, left=True)
                el = qmul(a.elem, b.elem) if isinstance(a.elem, Q) and isinstance(b.elem, Q) else UNK
                return Arr(tuple(x for i, x in enumerate(a.axes) if i != ia) + tuple(x for i, x in enumerate(b.axes) if i != ib), el)
            return UNK
        if np_ in ('matmul', 'dot') and len(args) == 2:
            a, b = args
            if isinstance(a, Arr) and isinstance(b, Arr) and a.axes and b.axes:
                self.role_check(e, b, 0 if len(b.axes) <= 2 else len(b.axes) - 2)
                self.role_check(e, a, len(a.axes) - 1, left=True)
                bc = b.axes[0] if len(b.axes) <= 2 else b.axes[-2]
                if a.axes[-1] is not bc and not is_unk(a.axes[-1]) and not is_unk(bc):
                    self.report('space', e, 'matrix product contracts an axis of space %s with an axis of space %s' % (a.axes[-1], bc))
                el = qmul(a.elem, b.elem) if isinstance(a.elem, Q) and isinstance(b.elem, Q) else UNK
                # a product with a SUB-BLOCK of a role matrix (m[np.ix_(c, c)]): the cross terms with the channels left out are dropped
                if isinstance(el, Q) and any(getattr(m_, 'roles', None) and getattr(m_, 'subblock', False) for m_ in (a, b)):
                    el = Q(el.dim, el.tags | {'subblock'})
                return Arr(a.axes[:-1] + b.axes[1:], el)
            return UNK
        if np_ == 'einsum' and len(args) >= 3 and isinstance(args[0], StrT) and args[0].val and '->' in args[0].val:
            spec = args[0].val.replace(' ', '')
            ins, out = spec.split('->')
            ops = ins.split(',')
            arrs = args[1:]
            letter = {}
            el = None
            for sub, a in zip(ops, arrs):
                if not isinstance(a, Arr) or len(sub) != len(a.axes):
                    return UNK
                if getattr(a, 'roles', None):
                    for pos_, ch in enumerate(sub):
                        contracted = ch not in out and sum(ch in o for o in ops) >= 2
                        if contracted:
                            self.role_check(e, a, pos_, left=(a is not arrs[-1]))
                for ch, ax in zip(sub, a.axes):
                    if ch in letter and letter[ch] is not ax and not is_unk(ax) and not is_unk(letter[ch]):
                        self.report('space', e, "einsum index '%s' ranges over %s in one operand and over %s in another" % (ch, letter[ch], ax))
                    letter.setdefault(ch, ax)
                el = a.elem if el is None else (qmul(el, a.elem) if isinstance(el, Q) and isinstance(a.elem, Q) else UNK)
            if not all(ch in letter for ch in out):
                return UNK
            return Arr(tuple(letter[ch] for ch in out), el)
        if np_ == 'bincount':
            if isinstance(a0, Arr) and isinstance(a0.elem, Ix):
                sp = a0.elem.space
                ml = self.ev(kw['minlength'], env) if 'minlength' in kw else (args[2] if len(args) > 2 else None)
                full = isinstance(ml, SizeOf) and ml.space is sp
                if isinstance(ml, SizeOf) and ml.space is not sp and not is_unk(ml.space):
                    self.report('space', e, 'bincount of %s with minlength = size of %s' % (a0.elem, ml.space))
                ax = sp if full else Space('Prefix', 'bc', sp)
                el = CNT
                w = self.ev(kw['weights'], env) if 'weights' in kw else (args[1] if len(args) > 1 else None)
                if isinstance(w, Arr):
                    if isinstance(w.elem, Q):
                        el = Q(qmul(w.elem, CNT).dim, w.elem.tags)
                    if w.axes and a0.axes and w.axes[0] is not a0.axes[0] and not is_unk(w.axes[0]) and not is_unk(a0.axes[0]):
                        self.report('space', e, 'bincount weights over %s but ids over %s' % (w.axes[0], a0.axes[0]))
                if 'weights' not in kw and len(args) < 2 and a0.axes and not is_unk(a0.axes[0]):
                    # provenance of a histogram: WHICH elements were counted (the whole table, or a restriction of it)
                    el = Q(el.dim, el.tags | {'countof:%s' % a0.axes[0]})
                bc_ = Arr((ax,), el)
                if 'weights' not in kw and len(args) < 2:
                    bc_.counts_of = a0
                return bc_
            return UNK
        if np_ == 'ix_':
            return Tup(args + ['ix_'])
        if np_ == 'tile' and len(args) >= 2:
            a, t = args[0], args[1]
            if isinstance(a, Arr) and isinstance(t, Tup) and len(t.items) == 2:
                ax0 = a.axes[0] if len(a.axes) == 2 else (t.items[0].space if isinstance(t.items[0], SizeOf) else UNK)
                ax1 = t.items[1].space if isinstance(t.items[1], SizeOf) else (a.axes[-1] if a.axes[-1] is not ONE else UNK)
                if len(a.axes) == 1:
                    ax1 = a.axes[0]
                return Arr((ax0, ax1), a.elem)
            return UNK
        if np_ == 'swapaxes' and len(e.args) == 3:
            i, j = const_value(e.args[1]), const_value(e.args[2])
            if isinstance(a0, Arr) and isinstance(i, int) and isinstance(j, int):
                ax = list(a0.axes)
                ax[i], ax[j] = ax[j], ax[i]
                return Arr(tuple(ax), a0.elem)
            return UNK
        if np_ == 'transpose':
            if isinstance(a0, Arr):
                if len(e.args) > 1 and isinstance(e.args[1], (ast.Tuple, ast.List)):
                    order = [const_value(x) for x in e.args[1].elts]
                    if all(isinstance(o, int) for o in order) and len(order) == len(a0.axes):
                        return Arr(tuple(a0.axes[i] for i in order), a0.elem)
                    return UNK
                return Arr(tuple(reversed(a0.axes)), a0.elem)
            return UNK
        if np_ == 'average':
            ax = self.axis_of(e, kw)
            if isinstance(a0, Arr) and isinstance(ax, int):
                wtags = set()
                if 'weights' in kw:
                    w = self.ev(kw['weights'], env)
                    if isinstance(w, Arr) and w.axes and w.axes[0] is not a0.axes[ax] and not is_unk(w.axes[0]) and not is_unk(a0.axes[ax]):
                        self.report('space', e, 'weights of the average range over %s but the averaged axis is %s' % (w.axes[0], a0.axes[ax]))
                    tag = 'wmean:%s' % a0.axes[ax]
                    if isinstance(w, Arr) and isinstance(w.elem, Q):
                        wtags = {'w' + t for t in w.elem.tags if t.startswith('countof:')}       # what the weights count (whole table / a restriction of it)
                else:
                    tag = 'mean:%s' % a0.axes[ax]
                axes = list(a0.axes)
                axes.pop(ax)
                el = Q(a0.elem.dim, a0.elem.tags | {tag} | wtags) if isinstance(a0.elem, Q) else a0.elem
                return Arr(tuple(axes), el)
            return UNK
        if np_ == 'ravel_multi_index' and len(args) >= 2:
            t, shp = args[0], args[1]
            if isinstance(t, Tup) and isinstance(shp, Tup):
                for k, (ti, si) in enumerate(zip(t.items, shp.items)):
                    te = elem_of(ti)
                    if isinstance(te, Ix) and isinstance(si, SizeOf) and te.space is not si.space and not is_unk(te.space) and not is_unk(si.space):
                        self.report('space', e, 'ravel_multi_index: component %d holds %s but the dimension is the size of %s' % (k, te, si.space))
                first = next((x for x in t.items if isinstance(x, Arr)), None)
                prod = Space('Prod', tuple(id(s.space) for s in shp.items if isinstance(s, SizeOf)), None, parts=tuple(s.space for s in shp.items if isinstance(s, SizeOf)))
                return Arr(first.axes, Ix(prod)) if first is not None else Ix(prod)
            return UNK
        if np_ in ('r_', 'c_'):
            return UNK
        if np_ in ('split', 'array_split') and isinstance(a0, Arr) and a0.axes and self.axis_of(e, kw) in (None, 0):
            # consecutive pieces of the first axis, cut at the given positions: a list of ranges of that axis
            pieces = Arr((Space('Slice', unparse(e.args[1]) if len(e.args) > 1 else '?', a0.axes[0]),) + a0.axes[1:], a0.elem)
            cuts = args[1] if len(args) > 1 else None
            ax = cuts.axes[0] if isinstance(cuts, Arr) and cuts.axes else None
            return ListT(pieces, axis=ax)
        if np_ in ('vstack', 'concatenate', 'stack', 'dstack', 'hstack'):
            if isinstance(a0, ListT) and isinstance(a0.elem, Arr) and np_ in ('vstack', 'stack') and self.axis_of(e, kw) in (None, 0):
                return Arr((a0.axis or Space('ListAx', a0.vid),) + a0.elem.axes, a0.elem.elem)
            return UNK
        if np_ == 'cumsum':
            return a0 if isinstance(a0, Arr) else UNK
        if np_ == 'diff':
            if isinstance(a0, Arr) and len(a0.axes) == 1:
                return Arr((Space('Diff', a0.vid, a0.axes[0]),), a0.elem if isinstance(a0.elem, Q) else Q())
            return UNK
        if np_ == 'searchsorted':
            hay, needle = (args + [UNK, UNK])[:2]
            if isinstance(hay, Arr) and hay.axes:
                if 'sorter' in kw:
                    # positions in the SORTED order of `hay` (an index into the sorter, not into hay)
                    el = Ix(Space('SortedPos', hay.vid, hay.axes[0]))
                elif hay.sorted:
                    el = Ix(Space('Ext', hay.vid, hay.axes[0]))
                else:
                    el = Ix(Space('Ext', hay.vid, hay.axes[0], needs_sorted=True))
                return Arr(needle.axes, el) if isinstance(needle, Arr) else el
            return UNK
        if np_ == 'errstate':
            return UNK
        if np_ in ('linalg.inv', 'linalg.pinv'):
            if isinstance(a0, Arr) and isinstance(a0.elem, Q):
                return Arr(tuple(reversed(a0.axes)), Q(tuple((n, -x) for n, x in a0.elem.dim)))
            return UNK
        if np_ in ('eye', 'identity'):
            if isinstance(a0, SizeOf):
                return Arr((a0.space, a0.space), Q())
            return UNK
        if np_ in ('random.choice', 'random.permutation'):
            if isinstance(a0, Arr):
                return Arr((Space('Choice', a0.vid, a0.axes[0]),), a0.elem)
            return UNK
        if np_ == 'add.at' and len(args) >= 3:
            tgt, idx, val = args[0], args[1], args[2]
            if isinstance(tgt, Arr) and isinstance(idx, Arr) and isinstance(idx.elem, Ix) and tgt.axes:
                self.check_ix(e, tgt.axes[0], idx.elem, e.args[1])
                if isinstance(val, Arr) and val.axes and idx.axes and val.axes[0] is not idx.axes[0] and not is_unk(val.axes[0]) and not is_unk(idx.axes[0]):
                    self.report('space', e, 'np.add.at: values over %s scattered with indices over %s' % (val.axes[0], idx.axes[0]))
                if isinstance(tgt.elem, Q) and tgt.elem.poly and isinstance(elem_of(val), Q):
                    tgt.elem = Q(qmul(elem_of(val), CNT).dim)
            return NoneT()
        if np_ == 'clip':
            return a0
        if np_ == 'save':
            self.saved.append((e, self.ev(e.args[0], env) if e.args else UNK, args[1] if len(args) > 1 else UNK))
            return NoneT()
        return None

    def builtin_call(self, e, f, args, kw, env):
        a0 = args[0] if args else UNK
        if f == 'Bunch' or f.endswith('.Bunch'):
            return Rec({k: self.ev(v, env) for k, v in kw.items()})
        if f == 'dict':
            # dict(zip(keys, values)) -> a dictionary from the elements of `keys` to the elements of `values`
            if len(args) == 1 and not kw and isinstance(a0, ListT) and isinstance(a0.elem, Tup) and len(a0.elem.items) == 2:
                return DictT(a0.elem.items[0], a0.elem.items[1])
            return Rec({k: self.ev(v, env) for k, v in kw.items()})
        if f == 'len':
            if isinstance(a0, Arr):
                return SizeOf(a0.axes[0])
            if isinstance(a0, ListT):
                return SizeOf(a0.axis) if a0.axis is not None else Q()
            return Q()
        if f in ('int', 'float', 'abs', 'round'):
            return a0 if isinstance(a0, (Q, Ix, SizeOf)) else Q()
        if f in ('min', 'max'):
            if args and all(type(a) is type(args[0]) for a in args):
                if isinstance(a0, SizeOf) and any(not isinstance(a, SizeOf) or a.space is not a0.space for a in args):
                    return Q()
                return a0
            return Q()
        if f == 'range':
            a = args[-1] if len(args) <= 2 else args[1]
            if isinstance(a, SizeOf):
                return ListT(Ix(a.space), axis=a.space)
            if isinstance(a, Ix):
                return ListT(Ix(a.space))
            return ListT(Q())
        if f == 'enumerate':
            ax = a0.axis if isinstance(a0, ListT) else (a0.axes[0] if isinstance(a0, Arr) and a0.axes else None)
            el = self.iter_elem(a0)
            if ax is None and isinstance(a0, ListT):
                ax = Space('ListAx', a0.vid)
                a0.axis = ax
            return ListT(Tup([Ix(ax) if ax is not None else Q(), el]), axis=ax)
        if f == 'zip':
            # the zipped sequences are walked in step: the k-th tuple holds the k-th element of each, so the list runs over their common leading axis
            axs = [a.axis if isinstance(a, ListT) else (a.axes[0] if isinstance(a, Arr) and a.axes else None) for a in args]
            known = [x for x in axs if x is not None and not is_unk(x)]
            zax = known[0] if known and all(x is known[0] for x in known) else None
            return ListT(Tup([self.iter_elem(a) for a in args]), axis=zax)
        if f in ('list', 'tuple'):
            return a0 if isinstance(a0, ListT) else (ListT(self.iter_elem(a0), axis=a0.axes[0] if isinstance(a0, Arr) and a0.axes else None) if args else ListT(UNK))
        if f == 'sorted':
            return a0
        if f == 'getattr':
            if len(args) >= 2 and isinstance(args[1], StrT) and isinstance(e.args[0], ast.Name) and e.args[0].id == 'self':
                return self.selfattrs.get(args[1].val, args[2] if len(args) > 2 else Q())
            return Q()
        if f in ('isinstance', 'hasattr', 'callable'):
            return BoolT()
        if f == 'slice':
            full = all(isinstance(a_, ast.Constant) and a_.value is None for a_ in e.args) and 1 <= len(e.args) <= 3
            return PySlice(full, unparse(e))
        if f == 'str':
            return StrT()
        return None

    def role_check(self, node, m, axis, left=False):
        """A matrix with axis roles ('in', 'out') must be contracted on its 'in' axis when it multiplies from the right (x @ M),
        on its 'out' axis when it multiplies from the left (M @ x): otherwise the product uses the transpose of M."""
        roles = getattr(m, 'roles', None)
        if not roles or axis >= len(roles):
            return
        want = 'out' if left else 'in'
        if roles[axis] != want:
            self.report('role', node, 'the %s is contracted on its %s axis: the product uses the TRANSPOSE of the matrix (identical only for symmetric matrices)' %
                        (getattr(m, 'role_name', 'matrix'), {'in': 'input', 'out': 'output'}[roles[axis]]))

    def iter_elem(self, a):
        if isinstance(a, ListT):
            return a.elem
        if isinstance(a, Arr):
            if len(a.axes) == 1:
                return a.elem
            row = Arr(a.axes[1:], a.elem)
            row.view_of = a                 # iterating an ndarray yields VIEWS of its rows: a store through the row is a store into the array
            return row
        if isinstance(a, DictT):
            return a.key
        if isinstance(a, Tup):
            return a.items[0] if a.items else UNK
        return UNK

    def reduce(self, node, a, axis, how):
        if not isinstance(a, Arr):
            return elem_of(a) if not is_unk(a) else UNK
        el = a.elem
        if axis is None:
            # a full reduction reduces every axis: same provenance as reducing them one after the other
            if isinstance(el, Q) and how in ('sum', 'max', 'min', 'mean') and not any(is_unk(x) for x in a.axes):
                tags = el.tags | {'%s:%s' % (how, x) for x in a.axes}
                return Q(qmul(el, CNT).dim if how == 'sum' else el.dim, tags)
            if isinstance(el, Q) and how == 'sum':
                return Q(qmul(el, CNT).dim, el.tags)
            return el
        if axis == 'dyn':
            return Arr((UNK,) * (len(a.axes) - 1), el)
        axes = list(a.axes)
        if axis >= len(axes) or axis < -len(axes):
            self.report('rank', node, 'axis %d does not exist in %s' % (axis, a))
            return UNK
        red = axes.pop(axis)
        if isinstance(el, Q):
            if how == 'sum':
                el = Q(qmul(el, CNT).dim, el.tags | {'sum:%s' % red})
            elif how in ('max', 'min'):
                el = Q(el.dim, el.tags | {'%s:%s' % (how, red)})
            elif how == 'mean':
                el = Q(el.dim, el.tags | {'mean:%s' % red})
        if not axes:
            return el
        return Arr(tuple(axes), el)

    def argred(self, node, a, axis, how='argmax'):
        if not isinstance(a, Arr):
            return UNK
        how = how.replace('np.', '')
        if axis is None:
            if len(a.axes) == 1:
                ix = Ix(a.axes[0])
                ix.tag = (how, a, a.elem)
                return ix
            return UNK
        if not isinstance(axis, int) or axis >= len(a.axes) or axis < -len(a.axes):
            return UNK
        axes = list(a.axes)
        red = axes.pop(axis)
        ix = Ix(red)
        ix.tag = (how, a, a.elem)
        if not axes:
            return ix
        return Arr(tuple(axes), ix)

    def ev_ListComp(self, e, env):
        env2 = dict(env)
        ax = None
        for g in e.generators:
            it = self.ev(g.iter, env2)
            self.bind(g.target, self.iter_elem(it), env2)
            # a list without a named axis gets the one np.array() would give it, so that parallel comprehensions over the same list agree
            ax = (it.axis or Space('ListAx', it.vid)) if isinstance(it, ListT) else (it.axes[0] if isinstance(it, Arr) and it.axes else None)
            for c in g.ifs:
                self.ev(c, env2)
            if g.ifs:
                ax = Space('Filter', (e.lineno, e.col_offset), ax) if ax is not None else None
        return ListT(self.ev(e.elt, env2), axis=ax)
    ev_GeneratorExp = ev_ListComp

    def ev_DictComp(self, e, env):
        env2 = dict(env)
        for g in e.generators:
            it = self.ev(g.iter, env2)
            self.bind(g.target, self.iter_elem(it), env2)
        return DictT(self.ev(e.key, env2), self.ev(e.value, env2))

    def ev_Dict(self, e, env):
        if e.keys and all(isinstance(const_value(k), str) for k in e.keys if k is not None):
            return Rec({const_value(k): self.ev(v, env) for k, v in zip(e.keys, e.values) if k is not None})
        return DictT(self.ev(e.keys[0], env) if e.keys and e.keys[0] is not None else UNK, self.ev(e.values[0], env) if e.values else UNK)

    def ev_JoinedStr(self, e, env):
        return StrT()

    def ev_Lambda(self, e, env):
        return UNK

    # ------------------------------------------------------------------ conditions
    def truth(self, t, env):
        """True / False when the abstract values decide the test, None otherwise."""
        if isinstance(t, ast.BoolOp):
            vals = [self.truth(v, env) for v in t.values]
            if isinstance(t.op, ast.And):
                if any(v is False for v in vals):
                    return False
                return True if all(v is True for v in vals) else None
            if any(v is True for v in vals):
                return True
            return False if all(v is False for v in vals) else None
        if isinstance(t, ast.UnaryOp) and isinstance(t.op, ast.Not):
            v = self.truth(t.operand, env)
            return None if v is None else not v
        if isinstance(t, ast.Compare) and len(t.ops) == 1:
            l = self.ev(t.left, env)
            r = self.ev(t.comparators[0], env)
            op = t.ops[0]
            if isinstance(op, (ast.Is, ast.IsNot)) and isinstance(r, NoneT):
                if is_unk(l):
                    return None
                res = isinstance(l, NoneT)
                return res if isinstance(op, ast.Is) else not res
            if isinstance(op, (ast.Eq, ast.NotEq)) and isinstance(l, StrT) and isinstance(r, StrT) and l.val is not None and r.val is not None:
                res = l.val == r.val
                return res if isinstance(op, ast.Eq) else not res
            return None
        v = self.ev(t, env)
        if isinstance(v, NoneT):
            return False
        if isinstance(v, BoolT) and v.val is not None:
            return v.val
        if isinstance(v, Rec):
            return True
        return None

    # ------------------------------------------------------------------ statements
    def block(self, stmts, env, rets):
        for k, s in enumerate(stmts):
            if isinstance(s, ast.If) and self.truth(s.test, env) is None and getattr(self, 'forks', 0) < 6:
                # analyse the continuation once per branch when the branches leave different array types behind
                self.ev(s.test, env)
                e1, e2 = dict(env), dict(env)
                x1 = self.block(s.body, e1, rets)
                x2 = self.block(s.orelse, e2, rets)
                if x1 == 'exit' and x2 == 'exit':
                    return 'exit'
                rest = stmts[k + 1:]
                differs = x1 != 'exit' and x2 != 'exit' and (any(_sig(e1.get(n)) != _sig(e2.get(n)) for n in set(e1) | set(e2)
                                                                 if isinstance(e1.get(n), Arr) and isinstance(e2.get(n), Arr)) or
                                                             any(isinstance(e1.get(n), PySlice) != isinstance(e2.get(n), PySlice) and
                                                                 isinstance(e1.get(n), (Arr, PySlice)) and isinstance(e2.get(n), (Arr, PySlice)) for n in set(e1) | set(e2)))
                if differs:
                    self.forks = getattr(self, 'forks', 0) + 1
                    r1 = self.block(rest, e1, rets)
                    r2 = self.block(rest, e2, rets)
                    env.clear()
                    env.update(e1)
                    return 'exit' if (r1 == 'exit' and r2 == 'exit') else None
                env.clear()
                if x1 == 'exit':
                    env.update(e2)
                elif x2 == 'exit':
                    env.update(e1)
                else:
                    for n in set(e1) | set(e2):
                        a, b = e1.get(n, UNK), e2.get(n, UNK)
                        env[n] = a if (a is b or is_unk(b) or isinstance(b, NoneT) or repr(a) == repr(b)) else (b if is_unk(a) or isinstance(a, NoneT) else a)
                continue
            if self.stmt(s, env, rets) == 'exit':
                return 'exit'
        return None

    def bind(self, t, v, env):
        if isinstance(t, ast.Name):
            env[t.id] = v
        elif isinstance(t, (ast.Tuple, ast.List)):
            if isinstance(v, Tup) and len(v.items) == len(t.elts):
                for tt, vv in zip(t.elts, v.items):
                    self.bind(tt, vv, env)
            elif isinstance(v, Arr) and len(v.axes) >= 1:
                sub = v.elem if len(v.axes) == 1 else Arr(v.axes[1:], v.elem)
                for tt in t.elts:
                    self.bind(tt, sub, env)
            else:
                for tt in t.elts:
                    self.bind(tt, UNK, env)

    def stmt(self, s, env, rets):
        if isinstance(s, ast.Assign):
            v = self.ev(s.value, env)
            for t in s.targets:
                self.assign(t, v, env, s)
        elif isinstance(s, ast.AugAssign):
            v = self.ev(ast.copy_location(ast.BinOp(left=_load(s.target), op=s.op, right=s.value), s), env)
            if isinstance(s.target, ast.Name):
                env[s.target.id] = v
            elif isinstance(s.target, ast.Subscript):
                self.assign(s.target, v, env, s, aug=True)
        elif isinstance(s, ast.Return):
            rets.append((s, self.ev(s.value, env) if s.value is not None else NoneT()))
            return 'exit'
        elif isinstance(s, ast.Raise):
            return 'exit'
        elif isinstance(s, ast.If):
            tv = self.truth(s.test, env)
            if tv is True:
                return self.block(s.body, env, rets)
            if tv is False:
                return self.block(s.orelse, env, rets)
            self.ev(s.test, env)
            e1, e2 = dict(env), dict(env)
            x1 = self.block(s.body, e1, rets)
            x2 = self.block(s.orelse, e2, rets)
            if x1 == 'exit' and x2 == 'exit':
                return 'exit'
            env.clear()
            if x1 == 'exit':
                env.update(e2)
            elif x2 == 'exit':
                env.update(e1)
            else:
                for k in set(e1) | set(e2):
                    a, b = e1.get(k, UNK), e2.get(k, UNK)
                    env[k] = a if (a is b or is_unk(b) or isinstance(b, NoneT) or repr(a) == repr(b)) else (b if is_unk(a) or isinstance(a, NoneT) else a)
        elif isinstance(s, ast.For):
            it = self.ev(s.iter, env)
            self.bind(s.target, self.iter_elem(it), env)
            self.block(s.body, env, rets)
        elif isinstance(s, ast.While):
            self.block(s.body, env, rets)
        elif isinstance(s, ast.With):
            self.block(s.body, env, rets)
        elif isinstance(s, ast.Try):
            x = self.block(s.body, env, rets)
            for h in s.handlers:
                self.block(h.body, dict(env), rets)
            return x
        elif isinstance(s, ast.Expr):
            self.ev(s.value, env)
        elif isinstance(s, ast.Assert):
            self.assume(s.test, env)
        return None

    def assume(self, test, env):
        """`assert x.shape[k] == n` style facts unify an unknown axis with a known space."""
        self.ev(test, env)

    def assign(self, t, v, env, s, aug=False):
        if isinstance(t, ast.Name):
            env[t.id] = v
        elif isinstance(t, (ast.Tuple, ast.List)):
            self.bind(t, v, env)
        elif isinstance(t, ast.Subscript):
            base = self.ev(t.value, env)
            if isinstance(base, DictT):
                if is_unk(base.val):
                    base.val = v
                k = self.ev(t.slice, env)
                if isinstance(base.key, Ix) and isinstance(k, Ix) and base.key.space is not k.space:
                    self.report('space', s, 'dictionary keyed by %s is stored under a key of kind %s' % (base.key, k))
                return
            # x[<table of ids without spikes>] = nan : the rows of those ids are blanked (recorded on the array, which may be an alias passed to a helper)
            if isinstance(base, Arr) and not aug and isinstance(s, ast.Assign) and (dotted(s.value) in ('np.nan', 'np.NaN', 'numpy.nan', 'math.nan') or
                                                                                   (isinstance(s.value, ast.Call) and dotted(s.value.func) == 'float' and s.value.args and
                                                                                    str(const_value(s.value.args[0])).lower() == 'nan')):
                k_ = self.ev(t.slice, env)
                if isinstance(k_, Arr) and len(k_.axes) == 1 and getattr(k_.axes[0], 'kind', None) == 'K' and k_.axes[0].key == 'nan':
                    base.blanked = 'nan_idx'
            lhs = self.ev(t, env)
            if isinstance(lhs, Arr) and isinstance(v, Arr) and not aug:
                self.broadcast(s, lhs, v, UNK)
            tgt = base if isinstance(base, Arr) else None
            root = t.value
            while isinstance(root, ast.Subscript):
                root = root.value
            rootv = self.ev(root, env)
            views = []
            while isinstance(rootv, Arr) and getattr(rootv, 'view_of', None) is not None:
                views.append(rootv)
                rootv = rootv.view_of
            if isinstance(rootv, Arr) and isinstance(rootv.elem, Q) and rootv.elem.poly:
                tgt = rootv
            ve = elem_of(v)
            if tgt is not None and isinstance(tgt.elem, Q) and tgt.elem.poly and isinstance(ve, (Q, Ix)) and not (isinstance(ve, Q) and ve.poly):
                literal = isinstance(s, ast.Assign) and (isinstance(s.value, ast.Constant) or const_value(s.value) is not None)
                if not literal and not (isinstance(ve, Q) and not ve.dim and not ve.tags and isinstance(getattr(s, 'value', None), ast.Attribute)):
                    # a freshly allocated buffer filled through an index ARRAY holds the stored values only at the indexed positions, the fill value elsewhere
                    try:
                        k_ = self.ev(t.slice, env)
                    except Exception:
                        k_ = None
                    if isinstance(ve, Q) and isinstance(k_, Arr) and isinstance(k_.elem, (Ix, BoolT)):
                        ve = Q(ve.dim, ve.tags | {'partialfill'})
                    tgt.elem = ve
                    for w_ in views:
                        w_.elem = ve
            elif tgt is not None and isinstance(tgt.elem, Ix) and isinstance(ve, Ix) and tgt.elem.space is not ve.space and not is_unk(tgt.elem.space) and not is_unk(ve.space):
                self.report('space', s, 'values of kind %s are stored into an array of %s' % (ve, tgt.elem))
            elif tgt is not None and isinstance(tgt.elem, Q) and isinstance(ve, Q) and tgt.elem.dim and ve.dim and tgt.elem.dim != ve.dim and not tgt.elem.poly:
                self.report('dim', s, 'values of dimension %s are stored into an array of %s' % (ve, tgt.elem))
        elif isinstance(t, ast.Attribute):
            pass


def _sig(v):
    if isinstance(v, Arr):
        return (tuple(id(a) for a in v.axes), repr(v.elem), getattr(v, 'roles', None))
    return repr(type(v))


def _load(t):
    import copy
    t2 = copy.deepcopy(t)
    for n in ast.walk(t2):
        if hasattr(n, 'ctx'):
            n.ctx = ast.Load()
    return t2
