"""sym: algebraic normal forms for integer-valued terms (no solver).

Terms of vlib.proto (constants, parameters, Add/Sub/Mult/FloorDiv/Mod, max/min, int(), len(), ...)
are normalised to linear combinations over atoms with rational coefficients:

    Lin = { atom: coeff }, the atom '1' carries the constant

  * +, -, multiplication by a constant are interpreted; products of two non-constant terms, //, %,
    max, min become atoms whose arguments are themselves normal forms (so equality is structural on
    normal forms and insensitive to spelling, order of operands and temporaries);
  * a lone max/min atom with coefficient +-1 absorbs the rest of the sum:
        max(a, b) - c  ==  max(a - c, b - c)        -max(a, b) == min(-a, -b)
  * max/min are flattened, duplicate arguments removed, arguments sorted.

Equality of normal forms is the only judgement used for violations; a few sign facts
(`nonneg`) are derived syntactically and never used to report.
"""
from fractions import Fraction as Fr

from .proto import is_c, is_t, show as show_term


class Lin:
    __slots__ = ('d', '_k')

    def __init__(self, d=None):
        self.d = {k: Fr(v) for k, v in (d or {}).items() if v != 0}
        self._k = None

    @staticmethod
    def const(c):
        return Lin({'1': Fr(c)})

    @staticmethod
    def atom(a):
        return Lin({a: Fr(1)})

    def __add__(self, o):
        d = dict(self.d)
        for k, v in o.d.items():
            d[k] = d.get(k, 0) + v
        return Lin(d)

    def __neg__(self):
        return Lin({k: -v for k, v in self.d.items()})

    def __sub__(self, o):
        return self + (-o)

    def scale(self, c):
        return Lin({k: v * c for k, v in self.d.items()})

    def is_const(self):
        return set(self.d) <= {'1'}

    def cval(self):
        return self.d.get('1', Fr(0))

    def key(self):
        if self._k is None:
            self._k = tuple(sorted((repr(_akey(k)), v) for k, v in self.d.items()))
        return self._k

    def __eq__(self, o):
        return isinstance(o, Lin) and self.key() == o.key()

    def __hash__(self):
        return hash(self.key())

    def is_zero(self):
        return not self.d

    def atoms(self):
        return [k for k in self.d if k != '1']

    def __repr__(self):
        if not self.d:
            return '0'
        out = []
        for k, v in sorted(self.d.items(), key=lambda kv: repr(_akey(kv[0]))):
            if k == '1':
                out.append(str(v))
            else:
                c = '' if v == 1 else ('-' if v == -1 else '%s*' % v)
                out.append(c + fmt(k))
        return ' + '.join(out).replace('+ -', '- ')


def _akey(a):
    if isinstance(a, tuple):
        return tuple(_akey(x) for x in a)
    if isinstance(a, Lin):
        return ('Lin',) + a.key()
    return a


def fmt(a):
    if isinstance(a, tuple):
        return '%s(%s)' % (a[0], ', '.join(fmt(x) for x in a[1:]))
    if isinstance(a, Lin):
        return repr(a)
    return str(a)


def mk_ext(kind, args):
    """max/min of normal forms, flattened and canonical."""
    flat = []
    for a in args:
        if len(a.d) == 1:
            (k, v), = a.d.items()
            if isinstance(k, tuple) and k[0] == kind and v == 1:
                flat.extend(k[1:])
                continue
        flat.append(a)
    uniq = []
    for a in flat:
        if a not in uniq:
            uniq.append(a)
    # constants: keep only the extreme one
    consts = [a for a in uniq if a.is_const()]
    if len(consts) > 1:
        best = (max if kind == 'max' else min)(consts, key=lambda a: a.cval())
        uniq = [a for a in uniq if not a.is_const()] + [best]
    uniq.sort(key=lambda a: a.key())
    if len(uniq) == 1:
        return uniq[0]
    return Lin.atom((kind,) + tuple(uniq))


def absorb(l):
    """Push the rest of a sum into a lone max/min atom with coefficient +-1."""
    ext = [(k, v) for k, v in l.d.items() if isinstance(k, tuple) and k[0] in ('max', 'min')]
    if len(ext) != 1:
        return l
    (k, v), = ext
    if v not in (1, -1):
        return l
    rest = Lin({a: c for a, c in l.d.items() if a != k})
    if v == 1:
        return mk_ext(k[0], [absorb(a + rest) for a in k[1:]])
    other = 'min' if k[0] == 'max' else 'max'
    return mk_ext(other, [absorb((-a) + rest) for a in k[1:]])


def mul(a, b):
    if a.is_const():
        return b.scale(a.cval())
    if b.is_const():
        return a.scale(b.cval())
    # distribute a product over sums of few terms to get a polynomial normal form
    if len(a.d) * len(b.d) <= 16:
        out = Lin()
        for ka, va in a.d.items():
            for kb, vb in b.d.items():
                if ka == '1':
                    out = out + Lin({kb: va * vb})
                elif kb == '1':
                    out = out + Lin({ka: va * vb})
                else:
                    fa = list(ka[1:]) if isinstance(ka, tuple) and ka[0] == 'prod' else [ka]
                    fb = list(kb[1:]) if isinstance(kb, tuple) and kb[0] == 'prod' else [kb]
                    fs = sorted(fa + fb, key=lambda x: repr(_akey(x)))
                    out = out + Lin({('prod',) + tuple(fs): va * vb})
        return out
    fs = sorted([a, b], key=lambda t: t.key())
    return Lin.atom(('prod',) + tuple(fs))


class NF:
    """Normaliser from proto terms to Lin. `binds` maps a term to a Lin (spec variables / array atoms);
    `opaque(term)` may map further terms to atoms."""

    def __init__(self, binds=None):
        self.binds = dict(binds or {})

    def __call__(self, t):
        return self.nf(t)

    def nf(self, t):
        if t in self.binds:
            return self.binds[t]
        if isinstance(t, Lin):
            return t
        if is_c(t):
            v = t[1]
            if isinstance(v, bool) or not isinstance(v, (int, float)):
                return Lin.atom(('const', repr(v)))
            return Lin.const(Fr(str(v)))
        if not is_t(t):
            return Lin.atom(('raw', repr(t)))
        op = t[1]
        a = t[2:]
        if op == 'Add':
            return self.nf(a[0]) + self.nf(a[1])
        if op == 'Sub':
            return self.nf(a[0]) - self.nf(a[1])
        if op == 'USub':
            return -self.nf(a[0])
        if op == 'UAdd':
            return self.nf(a[0])
        if op == 'Mult':
            return mul(self.nf(a[0]), self.nf(a[1]))
        if op == 'FloorDiv':
            x, y = self.nf(a[0]), self.nf(a[1])
            if x.is_const() and y.is_const() and y.cval() != 0:
                return Lin.const(x.cval() // y.cval())
            return Lin.atom(('fdiv', x, y))
        if op == 'Div':
            x, y = self.nf(a[0]), self.nf(a[1])
            if y.is_const() and y.cval() != 0:
                return x.scale(1 / y.cval())
            return Lin.atom(('div', x, y))
        if op == 'Mod':
            return Lin.atom(('mod', self.nf(a[0]), self.nf(a[1])))
        if op == 'call':
            name = a[0]
            args = a[2:]
            base = name.split('.')[-1]
            if name in ('max', 'min') and len(args) >= 2 and not any(is_t(x) and x[1] == 'kw' for x in args):
                return mk_ext(name, [self.nf(x) for x in args])
            if name in ('int', 'float', 'np.int64', 'np.int32', 'np.uint64') and len(args) == 1:
                return self.nf(args[0])
            if name == 'len' and len(args) == 1:
                return Lin.atom(('len', self.nf_any(args[0])))
            if name in ('np.max', 'np.amax') and len(args) == 1:
                return Lin.atom(('amax', self.nf(args[0])))
            if name in ('np.min', 'np.amin') and len(args) == 1:
                return Lin.atom(('amin', self.nf(args[0])))
            return Lin.atom(('call', name) + tuple(self.nf_any(x) for x in args))
        if op == 'param':
            return Lin.atom(('param', a[0]))
        if op == 'm' and a and a[0] in ('max', 'min') and len(a) == 2:
            return Lin.atom(('amax' if a[0] == 'max' else 'amin', self.nf(a[1])))
        if op == 'attr' and len(a) == 2 and a[1] in ('start', 'stop', 'step') and is_t(a[0]) and a[0][1] == 'call' and a[0][2] == 'range' and \
                not any(is_t(x) and x[1] == 'kw' for x in a[0][4:]) and 1 <= len(a[0][4:]) <= 3:
            # range(a, b).start = a, .stop = b (range(b): start 0), .step = 1 unless given
            ra = list(a[0][4:])
            if a[1] == 'start':
                return self.nf(ra[0]) if len(ra) >= 2 else Lin.const(0)
            if a[1] == 'stop':
                return self.nf(ra[1] if len(ra) >= 2 else ra[0])
            return self.nf(ra[2]) if len(ra) == 3 else Lin.const(1)
        if op in ('item', 'index') and len(a) == 2 and is_t(a[0]) and a[0][1] == 'call' and a[0][2] == 'divmod' and len(a[0]) == 6 and is_c(a[1]) and a[1][1] in (0, 1):
            # q, r = divmod(x, y): q = x // y, r = x % y
            return self.nf(('t', 'FloorDiv' if a[1][1] == 0 else 'Mod', a[0][4], a[0][5]))
        if op in ('attr', 'index', 'item', 'slice'):
            return Lin.atom((op,) + tuple(self.nf_any(x) for x in a))
        return Lin.atom((op,) + tuple(self.nf_any(x) for x in a))

    def nf_any(self, x):
        if is_c(x) and (isinstance(x[1], bool) or not isinstance(x[1], (int, float))):
            return ('const', repr(x[1]))
        if is_c(x) or is_t(x):
            return self.nf(x)
        return ('raw', repr(x))


def canon(a):
    """Canonical form for comparison: arguments of max/min canonicalised recursively, then absorbed."""
    d = {}
    out = Lin()
    for k, v in a.d.items():
        if isinstance(k, tuple) and k[0] in ('max', 'min'):
            out = out + mk_ext(k[0], [canon(x) for x in k[1:]]).scale(v)
        elif isinstance(k, tuple) and k[0] in ('fdiv', 'mod', 'div', 'len'):
            out = out + Lin({(k[0],) + tuple(canon(x) if isinstance(x, Lin) else x for x in k[1:]): v})
        else:
            out = out + Lin({k: v})
    return absorb(out)


def equal(a, b):
    if (a - b).is_zero():
        return True
    ca, cb = canon(a), canon(b)
    return ca == cb or canon(a - b).is_zero() or (ca - cb).is_zero()


def nonneg(l):
    """Syntactic sign facts: sufficient, never used to report. x - fdiv(x, c) >= 0 for c >= 1 is NOT assumed
    without x >= 0; only constants and max(.., 0, ..) are recognised."""
    if l.is_const():
        return l.cval() >= 0
    if len(l.d) == 1:
        (k, v), = l.d.items()
        if isinstance(k, tuple) and k[0] == 'max' and v > 0 and any(a.is_const() and a.cval() >= 0 for a in k[1:]):
            return True
    return None
