"""eqfuzz: behaviour-preserving rewrites of the functions a check consults (false-alarm hunt; checker validation only).


For every function a property's check analysed on the current tree, the following rewrites are generated in memory (nothing is written):
  R1 rename-locals   every local variable v of the function is renamed to v_q (parameters, globals, imports, attribute names untouched)
  R2 reformat        the whole module is re-emitted with ast.unparse (comments dropped, parentheses / quotes / line breaks normalised)
  R3 return-temp     `return E` becomes `_rv = E; return _rv`
  R4 dead-local      an unused assignment is inserted at the top of the body
  R5 swap-assign     adjacent independent plain assignments with pure right-hand sides are swapped
  R7 kw-order        keyword arguments of every call are written in reverse order
  R9 flip-compare    `a < b` becomes `b > a` (and <=, >, >=, ==, != likewise) for every single-operator comparison
  R11 if-swap        `if c: A else: B` becomes `if not c: B else: A`
  R13 hoist-args     compound arguments of `x = f(a + b, c[i])` are first assigned to temporaries
and the property's check is evaluated on each. A rewrite that makes the check report a NEW violation is a false alarm of the checker
(printed as NOISY with the rule); one that drops the number of decided obligations below the floor is printed as FLOOR (the check would exit 2).
Checker validation only: never part of a verdict."""
import ast, json, os
from pathlib import Path

from . import front, driver

HERE = Path(__file__).resolve().parent.parent


def find_func(tree, qual):
    parts = qual.split('.')
    node = tree
    for p in parts:
        nxt = None
        for n in ast.iter_child_nodes(node):
            if isinstance(n, (ast.FunctionDef, ast.ClassDef, ast.AsyncFunctionDef)) and n.name == p:
                nxt = n
                break
        if nxt is None:
            return None
        node = nxt
    return node if isinstance(node, (ast.FunctionDef, ast.AsyncFunctionDef)) else None


def local_names(fn):
    params = {a.arg for a in fn.args.args + fn.args.kwonlyargs + fn.args.posonlyargs}
    if fn.args.vararg:
        params.add(fn.args.vararg.arg)
    if fn.args.kwarg:
        params.add(fn.args.kwarg.arg)
    bound, banned = set(), set(params)
    for n in ast.walk(fn):
        if isinstance(n, ast.Name) and isinstance(n.ctx, (ast.Store, ast.Del)):
            bound.add(n.id)
        elif isinstance(n, (ast.Global, ast.Nonlocal)):
            banned |= set(n.names)
        elif isinstance(n, (ast.Import, ast.ImportFrom)):
            banned |= {(a.asname or a.name).split('.')[0] for a in n.names}
        elif isinstance(n, (ast.FunctionDef, ast.AsyncFunctionDef, ast.Lambda)) and n is not fn:
            a = n.args
            banned |= {x.arg for x in a.args + a.kwonlyargs + a.posonlyargs}
            if isinstance(n, ast.FunctionDef):
                banned.add(n.name)
        elif isinstance(n, ast.ExceptHandler) and n.name:
            banned.add(n.name)
        elif isinstance(n, ast.Call) and isinstance(n.func, ast.Name) and n.func.id in ('locals', 'vars', 'exec', 'eval'):
            return set()
    return bound - banned


def r1(tree, qual):
    fn = find_func(tree, qual)
    if fn is None:
        return None
    names = local_names(fn)
    if not names:
        return None
    for n in ast.walk(fn):
        if isinstance(n, ast.Name) and n.id in names:
            n.id = n.id + '_q'
    return tree


def r3(tree, qual):
    fn = find_func(tree, qual)
    if fn is None:
        return None
    hit = [0]

    class T(ast.NodeTransformer):
        def visit_FunctionDef(self, n):
            if n is fn:
                self.generic_visit(n)
            return n

        def visit_Lambda(self, n):
            return n

        def visit_Return(self, n):
            if n.value is None or isinstance(n.value, (ast.Constant, ast.Name)):
                return n
            hit[0] += 1
            return [ast.Assign(targets=[ast.Name(id='_rv', ctx=ast.Store())], value=n.value, lineno=n.lineno, col_offset=n.col_offset),
                    ast.Return(value=ast.Name(id='_rv', ctx=ast.Load()), lineno=n.lineno, col_offset=n.col_offset)]
    if any(isinstance(x, (ast.Yield, ast.YieldFrom)) for x in ast.walk(fn)):
        return None
    T().visit(fn)
    return tree if hit[0] else None


def r4(tree, qual):
    fn = find_func(tree, qual)
    if fn is None:
        return None
    i = 1 if fn.body and isinstance(fn.body[0], ast.Expr) and isinstance(getattr(fn.body[0], 'value', None), ast.Constant) and isinstance(fn.body[0].value.value, str) else 0
    fn.body.insert(i, ast.Assign(targets=[ast.Name(id='_unused_q', ctx=ast.Store())], value=ast.Constant(value=0), lineno=fn.lineno, col_offset=fn.col_offset + 4))
    return tree


FLIP = {ast.Lt: ast.Gt, ast.Gt: ast.Lt, ast.LtE: ast.GtE, ast.GtE: ast.LtE, ast.Eq: ast.Eq, ast.NotEq: ast.NotEq}


def r9(tree, qual):
    fn = find_func(tree, qual)
    if fn is None:
        return None
    hit = 0
    for n in ast.walk(fn):
        if isinstance(n, ast.Compare) and len(n.ops) == 1 and type(n.ops[0]) in FLIP:
            n.left, n.comparators = n.comparators[0], [n.left]
            n.ops = [FLIP[type(n.ops[0])]()]
            hit += 1
    return tree if hit else None


def r7(tree, qual):
    """reverse the order of keyword arguments in every call"""
    fn = find_func(tree, qual)
    if fn is None:
        return None
    hit = 0
    for n in ast.walk(fn):
        if isinstance(n, ast.Call) and len(n.keywords) >= 2 and all(k.arg is not None for k in n.keywords):
            n.keywords = list(reversed(n.keywords))
            hit += 1
    return tree if hit else None


def r11(tree, qual):
    """`if c: A else: B`  ->  `if not c: B else: A` (statements with a plain else branch)"""
    fn = find_func(tree, qual)
    if fn is None:
        return None
    hit = 0
    for n in ast.walk(fn):
        if isinstance(n, ast.If) and n.orelse and not (len(n.orelse) == 1 and isinstance(n.orelse[0], ast.If)):
            n.test = ast.UnaryOp(op=ast.Not(), operand=n.test)
            n.body, n.orelse = n.orelse, n.body
            hit += 1
    return tree if hit else None


PURE_CALLS = ('len', 'min', 'max', 'int', 'float', 'range', 'abs', 'tuple', 'list', 'sorted', 'isinstance')


def _pure(e):
    for n in ast.walk(e):
        if isinstance(n, ast.Call):
            d = ast.unparse(n.func)
            if not (d.startswith('np.') or d in PURE_CALLS):
                return False
        if isinstance(n, (ast.Yield, ast.YieldFrom, ast.Await, ast.NamedExpr, ast.Lambda)):
            return False
    return True


def _names(e, ctx_t):
    return {n.id for n in ast.walk(e) if isinstance(n, ast.Name) and isinstance(n.ctx, ctx_t)}


def r5(tree, qual):
    """swap adjacent independent plain assignments (pure right-hand sides, disjoint names)"""
    fn = find_func(tree, qual)
    if fn is None:
        return None
    hit = 0
    for n in ast.walk(fn):
        for f in ('body', 'orelse', 'finalbody'):
            blk = getattr(n, f, None)
            if not isinstance(blk, list):
                continue
            i = 0
            while i + 1 < len(blk):
                a, b = blk[i], blk[i + 1]
                if isinstance(a, ast.Assign) and isinstance(b, ast.Assign) and len(a.targets) == 1 and len(b.targets) == 1 and \
                        isinstance(a.targets[0], ast.Name) and isinstance(b.targets[0], ast.Name) and a.targets[0].id != b.targets[0].id and \
                        _pure(a.value) and _pure(b.value) and a.targets[0].id not in _names(b.value, ast.Load) and b.targets[0].id not in _names(a.value, ast.Load):
                    blk[i], blk[i + 1] = b, a
                    hit += 1
                    i += 2
                else:
                    i += 1
    return tree if hit else None


def r13(tree, qual):
    """hoist compound arguments of the call on the right-hand side of a plain assignment into temporaries"""
    fn = find_func(tree, qual)
    if fn is None:
        return None
    hit = [0]
    for n in ast.walk(fn):
        for f in ('body', 'orelse', 'finalbody'):
            blk = getattr(n, f, None)
            if not isinstance(blk, list):
                continue
            out = []
            for st in blk:
                if isinstance(st, ast.Assign) and isinstance(st.value, ast.Call) and not any(isinstance(a, ast.Starred) for a in st.value.args) and _pure(st.value.func):
                    pre = []
                    ok = True
                    for k, a in enumerate(st.value.args):
                        if isinstance(a, (ast.BinOp, ast.Subscript, ast.Compare)) and _pure(a) and all(_pure(x) for x in st.value.args[:k]):
                            nm = '_h%d_q' % hit[0]
                            hit[0] += 1
                            pre.append(ast.Assign(targets=[ast.Name(id=nm, ctx=ast.Store())], value=a, lineno=st.lineno, col_offset=st.col_offset))
                            st.value.args[k] = ast.Name(id=nm, ctx=ast.Load())
                    out.extend(pre)
                out.append(st)
            blk[:] = out
    return tree if hit[0] else None


REWRITES = {'R1': r1, 'R3': r3, 'R4': r4, 'R5': r5, 'R7': r7, 'R9': r9, 'R11': r11, 'R13': r13}


def variants(prop, base_ctx, root):
    out = []
    funcs = sorted(base_ctx.analysed['functions'])
    # plus every function of the files the property is anchored in (the engines inline callees that no obligation names)
    anchors = []
    for l in (HERE / 'properties.jsonl').read_text().splitlines():
        if l.strip() and json.loads(l)['id'] == prop:
            anchors = json.loads(l)['anchors'].get('files', [])
    repo_ = base_ctx.repo
    for fi in repo_.all_funcs():
        w = getattr(fi, 'where', '')
        if w.split(':')[0] in anchors and w not in funcs:
            funcs.append(w)
    by_mod = {}
    for w in funcs:
        rel, _, qual = w.partition(':')
        if rel.endswith('.py') and qual and (Path(root) / rel).exists():
            by_mod.setdefault(rel, []).append(qual)
    for rel, quals in by_mod.items():
        src = (Path(root) / rel).read_text()
        try:
            out.append(('R2', rel, '*', ast.unparse(ast.parse(src)) + '\n'))
        except Exception:
            pass
        for qual in quals:
            for name, fn in REWRITES.items():
                tree = ast.parse(src)
                try:
                    t2 = fn(tree, qual)
                except Exception:
                    t2 = None
                if t2 is None:
                    continue
                try:
                    new = ast.unparse(ast.fix_missing_locations(t2)) + '\n'
                    compile(new, rel, 'exec')
                except Exception:
                    continue
                out.append((name, rel, qual, new))
    return out


def sweep(mod, prop, root, details=False, jobs=None):
    """Evaluates the check of `prop` on every rewrite; returns {'rewrites': n, 'functions': k, 'noisy': [(name, fired)]}."""
    base = driver.evaluate(mod, prop, front.Repo(root))
    vs = variants(prop, base, root)
    driver._W.update(mod=mod, prop=prop, root=root, tier='quick', seed=0, base=driver._viol_keys(base), details=details, floor=mod.FLOOR)
    tasks = [('equivalent', '%s %s %s' % (n, rel, q_), {rel: src}, []) for n, rel, q_, src in vs]
    res = driver._run_tasks(tasks, jobs or min(16, os.cpu_count() or 1))
    noisy = [(name, fired) for kind, name, status, fired in res if status != 'silent']
    kinds = {}
    for n, rel, q_, src in vs:
        kinds[n] = kinds.get(n, 0) + 1
    return {'rewrites': len(tasks), 'functions': len(base.analysed['functions']), 'by_kind': kinds, 'noisy': noisy}
