"""viewmap: symbolic index maps of array views (an abstract domain for rearrangement code).

A value is a list of SEGMENTS along one concatenation axis; every segment is a View:

    View(base, perm, maps, length_exprs)
      base      name of the source array ('c' or a derived array such as "c'" whose definition is recorded separately)
      axes      for every output axis: (source axis, scale in {+1, -1}, offset) with offset a linear form over symbolic
                axis lengths - i.e. out[i0, i1, ...] = base[ ..., scale*i_k + offset, ... ]
      lens      the length of every output axis as a linear form

Supported rearrangements: basic slicing with constant / None bounds and step +-1, `...`, integer indexing (drops the axis),
transposition, `.T`, concatenation (np.dstack / np.concatenate on an axis). Elementwise binary operations produce an
Op(view, view) node that records both operand maps. No array is ever materialised and no size is ever instantiated.
"""
from fractions import Fraction as Fr

from .sym import Lin


def L(name):
    return Lin.atom((name,))


def K(c):
    return Lin.const(c)


class View:
    def __init__(self, base, axes, lens, fixed=None):
        self.base, self.axes, self.lens = base, list(axes), list(lens)
        self.fixed = dict(fixed or {})      # source axis -> fixed index (linear form) for axes dropped by integer indexing

    @staticmethod
    def of(base, lens):
        return View(base, [(k, 1, K(0)) for k in range(len(lens))], list(lens))

    def ndim(self):
        return len(self.axes)

    def index(self, items):
        """items: list of ('slice', lo, hi, step) | ('int', k) | 'ellipsis'  (constants or None)."""
        n_real = sum(1 for it in items if it != 'ellipsis')
        out_axes, out_lens, fixed = [], [], dict(self.fixed)
        pos = 0
        exp = []
        for it in items:
            if it == 'ellipsis':
                exp.extend([('slice', None, None, None)] * (self.ndim() - n_real))
            else:
                exp.append(it)
        exp.extend([('slice', None, None, None)] * (self.ndim() - len(exp)))
        for it, (src, sc, off), ln in zip(exp, self.axes, self.lens):
            if it[0] == 'int':
                k = it[1]
                idx = K(k) if k >= 0 else ln + K(k)
                fixed[src] = idx.scale(sc) + off
                continue
            _, lo, hi, st = it
            st = 1 if st is None else st
            if st not in (1, -1):
                raise ValueError('step %r' % (st,))
            if st == 1:
                # a bound may already be a linear form (absolute position, resolved by the caller from a symbolic expression)
                lo_ = K(0) if lo is None else (lo if isinstance(lo, Lin) else (K(lo) if lo >= 0 else ln + K(lo)))
                hi_ = ln if hi is None else (hi if isinstance(hi, Lin) else (K(hi) if hi >= 0 else ln + K(hi)))
                nl = hi_ - lo_
                # out index t -> in index lo_ + t
                out_axes.append((src, sc, off + lo_.scale(sc)))
                out_lens.append(nl)
            else:
                lo_ = ln - K(1) if lo is None else (K(lo) if lo >= 0 else ln + K(lo))
                hi_ = K(-1) if hi is None else (K(hi) if hi >= 0 else ln + K(hi))
                nl = lo_ - hi_
                # out index t -> in index lo_ - t
                out_axes.append((src, -sc, off + lo_.scale(sc)))
                out_lens.append(nl)
        return View(self.base, out_axes, out_lens, fixed)

    def transpose(self, order=None):
        order = list(range(self.ndim()))[::-1] if order is None else list(order)
        return View(self.base, [self.axes[i] for i in order], [self.lens[i] for i in order], self.fixed)

    def key(self):
        return (self.base, tuple((s, sc, o.key()) for s, sc, o in self.axes), tuple(l.key() for l in self.lens),
                tuple(sorted((k, v.key()) for k, v in self.fixed.items())))

    def __repr__(self):
        names = 'ijklmn'
        idx = {}
        for t, (src, sc, off) in enumerate(self.axes):
            idx[src] = '%s%s%s' % ('' if sc == 1 else '-', names[t], (' + (%s)' % off) if not off.is_zero() else '')
        for src, v in self.fixed.items():
            idx[src] = '%s' % v
        return '%s[%s] over %s' % (self.base, ', '.join(idx.get(k, '?') for k in sorted(idx)), [str(l) for l in self.lens])


class Op:
    def __init__(self, name, a, b):
        self.name, self.a, self.b = name, a, b

    def key(self):
        ka, kb = self.a.key(), self.b.key()
        if self.name in ('maximum', 'minimum', 'add', 'mul'):
            ka, kb = sorted([ka, kb], key=repr)
        return (self.name, ka, kb)

    @property
    def lens(self):
        return self.a.lens

    def ndim(self):
        return self.a.ndim()

    def transpose(self, order=None):
        return Op(self.name, self.a.transpose(order), self.b.transpose(order))

    def index(self, items):
        return Op(self.name, self.a.index(items), self.b.index(items))

    def __repr__(self):
        return '%s(%s, %s)' % (self.name, self.a, self.b)


class Cat:
    """Concatenation of views along `axis`."""

    def __init__(self, axis, parts):
        self.axis, self.parts = axis, list(parts)

    def key(self):
        return ('cat', self.axis, tuple(p.key() for p in self.parts))

    def __repr__(self):
        return 'cat(axis=%d: %s)' % (self.axis, ' | '.join(map(repr, self.parts)))
