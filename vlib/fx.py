"""fx: file-system effect and path-provenance analysis (DESIGN §4.3).

A join-based, context-sensitive abstract interpreter over the resolved program. Abstract values:

  P(root, pat)      a path: symbolic root name + relative name pattern ('a.npy', 'cluster_*.tsv', 'a.npy|b*.npy'; '' = the root itself)
  K(v)              a Python constant
  A(src, writable)  an array; src = P it was loaded / mapped from (or None); writable = mapped with r+ / w+
  O(cls, fields)    an object of a repo class (fields: attr -> value), shared by reference
  R(fields)         a record (Bunch / dict with constant keys)
  L(items)          a list / tuple of values
  F(path, mode)     an open file
  U                 unknown

Effects are collected with the call stack and the guards (enclosing `if` tests / `except` handlers, of the
site and of every call site on the stack).  May-effects are over-approximated: every branch is taken, loops
over constant tables are expanded, other loops run once with an unknown element, virtual calls take all overrides.
"""
import ast
import fnmatch

from .front import unparse, dotted, const_value, attr_chain, FuncInfo, str_eval, AnchorMissing


class V:
    pass


class P(V):
    def __init__(self, root, pat=''):
        self.root, self.pat = root, pat

    def __repr__(self):
        return '%s/%s' % (self.root, self.pat) if self.pat else str(self.root)

    def key(self):
        return ('P', self.root, self.pat)

    def join(self, name):
        if name is None or self.pat is None:
            return P(self.root, None)
        return P(self.root, (self.pat.rstrip('/') + '/' + name) if self.pat else name)


class K(V):
    def __init__(self, v):
        self.v = v

    def __repr__(self):
        return 'K(%r)' % (self.v,)

    def key(self):
        return ('K', repr(self.v))


class A(V):
    def __init__(self, src=None, writable=False, mode=None):
        self.src, self.writable, self.mode = src, writable, mode

    def __repr__(self):
        return 'A(%s%s)' % (self.src, ',W' if self.writable else '')

    def key(self):
        return ('A', self.src.key() if self.src else None, self.writable)


class O(V):
    def __init__(self, cls, fields=None):
        self.cls, self.fields = cls, dict(fields or {})

    def __repr__(self):
        return 'O(%s)' % (self.cls.name if self.cls else '?')

    def key(self):
        return ('O', id(self))


class R(V):
    def __init__(self, fields=None):
        self.fields = dict(fields or {})

    def __repr__(self):
        return 'R(%s)' % sorted(self.fields)

    def key(self):
        return ('R', tuple(sorted((k, v.key()) for k, v in self.fields.items())))


class L(V):
    def __init__(self, items, exact=True):
        self.items, self.exact = list(items), exact

    def __repr__(self):
        return 'L%s' % self.items

    def key(self):
        return ('L', tuple(i.key() for i in self.items), self.exact)


class F(V):
    def __init__(self, path, mode):
        self.path, self.mode = path, mode

    def __repr__(self):
        return 'F(%s,%s)' % (self.path, self.mode)

    def key(self):
        return ('F', self.path.key() if isinstance(self.path, V) else None, self.mode)


class Unknown(V):
    def __repr__(self):
        return 'U'

    def key(self):
        return ('U',)


U = Unknown()


class Many(V):
    """A small set of alternative values (join of branches)."""

    def __init__(self, alts):
        out = []
        for a in alts:
            for x in (a.alts if isinstance(a, Many) else [a]):
                if not any(x.key() == y.key() for y in out):
                    out.append(x)
        self.alts = out[:6]

    def __repr__(self):
        return 'Many%s' % self.alts

    def key(self):
        return ('M', tuple(a.key() for a in self.alts))


def join(a, b):
    if a is None:
        return b
    if b is None:
        return a
    if a.key() == b.key():
        return a
    return Many([a, b])


def alts(v):
    return v.alts if isinstance(v, Many) else [v]


WRITE_MODES = ('r+', 'w+', 'readwrite', 'write')
VIEW_FUNCS = {'numpy.atleast_1d', 'numpy.atleast_2d', 'numpy.atleast_3d', 'numpy.squeeze', 'numpy.reshape', 'numpy.transpose', 'numpy.asarray',
              'numpy.asanyarray', 'numpy.ravel', 'numpy.swapaxes', 'numpy.moveaxis', 'numpy.ascontiguousarray'}
VIEW_METHODS = {'squeeze', 'reshape', 'transpose', 'view', 'swapaxes', 'ravel', 'T'}
INPLACE_FUNCS = {'numpy.place', 'numpy.put', 'numpy.copyto', 'numpy.putmask', 'numpy.fill_diagonal', 'numpy.add.at', 'numpy.subtract.at'}
INPLACE_METHODS = {'fill', 'sort', 'itemset', 'put', 'partition', 'resize', 'byteswap', 'flush'}


class Effect:
    def __init__(self, kind, path, node, fi, stack, guards, detail=''):
        self.kind, self.path, self.node, self.fi, self.stack, self.guards, self.detail = kind, path, node, fi, list(stack), list(guards), detail

    def where(self):
        return '%s:%d' % (self.fi.where, getattr(self.node, 'lineno', 0))

    def chain(self):
        return ' -> '.join([f.qualname for f, n, g in self.stack] + [self.fi.qualname])

    def all_guards(self):
        out = []
        for f, n, g in self.stack:
            out.extend(g)
        out.extend(self.guards)
        return out

    def __repr__(self):
        return '<%s %s at %s via %s>' % (self.kind, self.path, self.where(), self.chain())


class Fx:
    def __init__(self, repo, max_depth=10):
        self.repo = repo
        self.effects = []
        self.max_depth = max_depth
        self.memo = {}
        self.stack = []          # (fi, call node, guards at the call site)
        self.guards = []         # guards inside the current function
        self.summaries = {}      # (rel, qualname) -> callable(fx, fi, call, args, kwargs, recv) -> value
        self.notes = []
        self.calls_seen = 0

    # ------------------------------------------------------------------ effects
    def emit(self, kind, path, node, fi, detail=''):
        for p in alts(path) if isinstance(path, V) else [path]:
            if isinstance(p, F):
                p = p.path
            if isinstance(p, A):
                p = p.src
            self.effects.append(Effect(kind, p, node, fi, self.stack, self.guards, detail))

    # ------------------------------------------------------------------ entry
    def run(self, fi, self_obj=None, args=None, kwargs=None):
        return self.call_function(fi, None, list(args or []), dict(kwargs or {}), self_obj)

    def call_function(self, fi, call, args, kwargs, recv):
        if len(self.stack) >= self.max_depth or any(f.node is fi.node for f, n, g in self.stack[-3:]) and len([1 for f, n, g in self.stack if f.node is fi.node]) >= 2:
            return U
        env = {}
        params = list(fi.params)
        if fi.is_method:
            if params:
                env[params[0]] = recv if recv is not None else U
            params = params[1:]
        for p, a in zip(params, args):
            env[p] = a
        extra = args[len(params):]
        if fi.vararg:
            env[fi.vararg] = L(extra)
        rest = {}
        for k, v in kwargs.items():
            if k in params or k in fi.kwonly:
                env[k] = v
            else:
                rest[k] = v
        if fi.kwarg:
            env[fi.kwarg] = R(rest)
        for p, d in fi.defaults().items():
            if p not in env:
                env[p] = self.ev(d, {}, fi)
        for p in params + fi.kwonly:
            env.setdefault(p, U)
        saved_guards = self.guards
        if call is not None:
            self.stack.append((self.cur, call, list(saved_guards)))
        saved_cur = getattr(self, 'cur', None)
        self.cur = fi
        self.guards = []
        self.rets = getattr(self, 'rets', [])
        my_rets = []
        saved_rets = self.rets
        self.rets = my_rets
        saved_yields = getattr(self, 'yields', None)
        my_yields = []
        self.yields = my_yields
        try:
            self.block(fi.body(), env, fi)
        finally:
            self.rets = saved_rets
            self.yields = saved_yields
            self.cur = saved_cur
            self.guards = saved_guards
            if call is not None:
                self.stack.pop()
        if fi.yields() or any(isinstance(n, ast.YieldFrom) for n in ast.walk(fi.node)):
            # a generator function: its value is the sequence of what it yields (`yield v` one element, `yield from x` the elements of x); effects of its body
            # were recorded above (the body may run later, lazily - the set of effects is the same)
            return L(my_yields or [U], exact=False)
        out = None
        for r in my_rets:
            out = join(out, r)
        return out if out is not None else K(None)

    # ------------------------------------------------------------------ statements
    def block(self, stmts, env, fi):
        pushed = 0
        for s in stmts:
            self.stmt(s, env, fi)
            # `if c: return / raise / continue / break` guards everything that follows in this block by `not c`
            if isinstance(s, ast.If) and s.body and isinstance(s.body[-1], (ast.Return, ast.Raise, ast.Continue, ast.Break)) and \
                    not (s.orelse and isinstance(s.orelse[-1], (ast.Return, ast.Raise, ast.Continue, ast.Break))):
                self.guards.append((s.test, 'after-exit', fi))
                pushed += 1
        for _ in range(pushed):
            self.guards.pop()

    def stmt(self, s, env, fi):
        if isinstance(s, ast.Assign):
            v = self.ev(s.value, env, fi)
            for t in s.targets:
                self.assign(t, v, env, fi, s)
        elif isinstance(s, ast.AnnAssign) and s.value is not None:
            self.assign(s.target, self.ev(s.value, env, fi), env, fi, s)
        elif isinstance(s, ast.AugAssign):
            cur = self.ev(_load(s.target), env, fi)
            self.ev(s.value, env, fi)
            for c in alts(cur):
                if isinstance(c, A) and c.writable:
                    self.emit('mmap-write', c.src, s, fi, 'in-place `%s`' % unparse(s)[:60])
            if isinstance(s.target, ast.Subscript):
                self.store_subscript(s.target, env, fi, s)
        elif isinstance(s, ast.Expr):
            self.ev(s.value, env, fi)
        elif isinstance(s, ast.Return):
            self.rets.append(self.ev(s.value, env, fi) if s.value is not None else K(None))
        elif isinstance(s, ast.If):
            self.ev(s.test, env, fi)
            e1, e2 = dict(env), dict(env)
            self.guards.append((s.test, True, fi))
            self.block(s.body, e1, fi)
            self.guards.pop()
            self.guards.append((s.test, False, fi))
            self.block(s.orelse, e2, fi)
            self.guards.pop()
            b_exit = bool(s.body) and isinstance(s.body[-1], (ast.Return, ast.Raise, ast.Continue, ast.Break))
            o_exit = bool(s.orelse) and isinstance(s.orelse[-1], (ast.Return, ast.Raise, ast.Continue, ast.Break))
            env.clear()
            if b_exit and not o_exit:
                env.update(e2)
            elif o_exit and not b_exit:
                env.update(e1)
            else:
                for k in set(e1) | set(e2):
                    env[k] = join(e1.get(k), e2.get(k)) if k in e1 and k in e2 else (e1.get(k) or e2.get(k))
        elif isinstance(s, ast.For):
            it = self.ev(s.iter, env, fi)
            seqs = self.elements(it)
            for el in seqs:
                self.assign(s.target, el, env, fi, s)
                self.block(s.body, env, fi)
            self.block(s.orelse, env, fi)
        elif isinstance(s, ast.While):
            self.ev(s.test, env, fi)
            self.block(s.body, env, fi)
            self.block(s.body, env, fi)
        elif isinstance(s, ast.With):
            for it in s.items:
                v = self.ev(it.context_expr, env, fi)
                if it.optional_vars is not None:
                    self.assign(it.optional_vars, v, env, fi, s)
            self.block(s.body, env, fi)
        elif isinstance(s, ast.Try):
            self.guards.append((s, 'try', fi))
            self.block(s.body, env, fi)
            self.guards.pop()
            for h in s.handlers:
                self.guards.append((s, ('except', dotted(h.type) if h.type is not None and not isinstance(h.type, ast.Tuple) else
                                        (tuple(dotted(t) for t in h.type.elts) if h.type is not None else None)), fi))
                e2 = env
                if h.name:
                    e2[h.name] = U
                self.block(h.body, e2, fi)
                self.guards.pop()
            self.block(s.orelse, env, fi)
            self.block(s.finalbody, env, fi)
        elif isinstance(s, ast.Delete):
            pass
        elif isinstance(s, (ast.FunctionDef, ast.ClassDef)):
            env[s.name] = U
        elif isinstance(s, ast.Assert):
            self.ev(s.test, env, fi)
        elif isinstance(s, ast.Raise):
            if s.exc is not None:
                self.ev(s.exc, env, fi)

    def elements(self, it):
        out = []
        for v in alts(it):
            if isinstance(v, L) and v.exact and len(v.items) <= 60:
                out.extend(v.items)
            elif isinstance(v, L):
                out.extend(v.items[:3] or [U])
            elif isinstance(v, R):
                out.append(U)
            else:
                out.append(self.iter_element(v))
        return out or [U]

    def iter_element(self, v):
        if isinstance(v, P) and v.pat is not None and '*GLOB*' in (v.pat or ''):
            return P(v.root, v.pat.replace('*GLOB*', ''))
        return U

    def assign(self, t, v, env, fi, stmt):
        if isinstance(t, ast.Name):
            env[t.id] = v
        elif isinstance(t, (ast.Tuple, ast.List)):
            for i, e in enumerate(t.elts):
                item = U
                for x in alts(v):
                    if isinstance(x, L) and len(x.items) == len(t.elts):
                        item = x.items[i] if item is U else join(item, x.items[i])
                self.assign(e, item, env, fi, stmt)
        elif isinstance(t, ast.Attribute):
            base = self.ev(t.value, env, fi)
            for b in alts(base):
                if isinstance(b, O):
                    b.fields[t.attr] = join(b.fields.get(t.attr), v) if t.attr in b.fields and b.fields[t.attr].key() != v.key() and \
                        not isinstance(b.fields[t.attr], Unknown) and getattr(self, 'weak_updates', False) else v
                elif isinstance(b, R):
                    b.fields[t.attr] = v
        elif isinstance(t, ast.Subscript):
            self.store_subscript(t, env, fi, stmt)
            base = self.ev(t.value, env, fi)
            k = const_value(t.slice)
            for b in alts(base):
                if isinstance(b, R) and isinstance(k, str):
                    b.fields[k] = v

    def store_subscript(self, t, env, fi, stmt):
        root = t
        while isinstance(root, ast.Subscript):
            root = root.value
        base = self.ev(root, env, fi)
        for b in alts(base):
            if isinstance(b, A) and b.writable:
                self.emit('mmap-write', b.src, stmt, fi, 'in-place store `%s` into an array mapped in mode %s' % (unparse(stmt)[:60], b.mode))

    # ------------------------------------------------------------------ expressions
    def ev(self, e, env, fi):
        m = getattr(self, 'ev_' + type(e).__name__, None)
        if m is None:
            for c in ast.iter_child_nodes(e):
                if isinstance(c, ast.expr):
                    self.ev(c, env, fi)
            return U
        return m(e, env, fi)

    def ev_Constant(self, e, env, fi):
        return K(e.value)

    def ev_Yield(self, e, env, fi):
        v = self.ev(e.value, env, fi) if e.value is not None else K(None)
        if getattr(self, 'yields', None) is not None:
            self.yields.append(v)
        return U

    def ev_YieldFrom(self, e, env, fi):
        v = self.ev(e.value, env, fi)
        if getattr(self, 'yields', None) is not None:
            self.yields.extend(self.elements(v))
        return U

    def ev_Name(self, e, env, fi):
        if e.id in env:
            return env[e.id]
        if e.id in fi.module.consts and e.id not in fi.defs():
            return self.ev(fi.module.consts[e.id], {}, fi)
        return U

    def ev_JoinedStr(self, e, env, fi):
        s = self.str_of(e, env, fi)
        return K(s) if s is not None else U

    def ev_Tuple(self, e, env, fi):
        return L([self.ev(x, env, fi) for x in e.elts])
    ev_List = ev_Tuple

    def ev_Dict(self, e, env, fi):
        out = {}
        for k, v in zip(e.keys, e.values):
            val = self.ev(v, env, fi)
            if k is not None and isinstance(const_value(k), str):
                out[const_value(k)] = val
        return R(out)

    def ev_ListComp(self, e, env, fi):
        env2 = dict(env)
        items = [None]
        g = e.generators[0]
        it = self.ev(g.iter, env2, fi)
        els = self.elements(it)
        out = []
        for el in els:
            self.assign(g.target, el, env2, fi, e)
            for c in g.ifs:
                self.ev(c, env2, fi)
            if len(e.generators) > 1:
                for g2 in e.generators[1:]:
                    it2 = self.ev(g2.iter, env2, fi)
                    for el2 in self.elements(it2)[:3]:
                        self.assign(g2.target, el2, env2, fi, e)
            out.append(self.ev(e.elt, env2, fi))
        exact = all(isinstance(v, L) and v.exact for v in alts(it))
        return L(out, exact=exact)
    ev_GeneratorExp = ev_SetComp = ev_ListComp

    def ev_DictComp(self, e, env, fi):
        env2 = dict(env)
        for g in e.generators:
            it = self.ev(g.iter, env2, fi)
            self.assign(g.target, self.elements(it)[0], env2, fi, e)
        self.ev(e.key, env2, fi)
        self.ev(e.value, env2, fi)
        return U

    def ev_IfExp(self, e, env, fi):
        self.ev(e.test, env, fi)
        return join(self.ev(e.body, env, fi), self.ev(e.orelse, env, fi))

    def ev_BoolOp(self, e, env, fi):
        out = None
        for v in e.values:
            out = join(out, self.ev(v, env, fi))
        return out

    def ev_UnaryOp(self, e, env, fi):
        v = self.ev(e.operand, env, fi)
        return U if isinstance(e.op, ast.Not) else (v if isinstance(v, A) else U)

    def ev_Compare(self, e, env, fi):
        self.ev(e.left, env, fi)
        for c in e.comparators:
            self.ev(c, env, fi)
        return U

    def ev_Starred(self, e, env, fi):
        return self.ev(e.value, env, fi)

    def ev_Lambda(self, e, env, fi):
        return U

    def ev_BinOp(self, e, env, fi):
        l, r = self.ev(e.left, env, fi), self.ev(e.right, env, fi)
        if isinstance(e.op, ast.Div):
            out = None
            for a in alts(l):
                if isinstance(a, P):
                    for b in alts(r):
                        out = join(out, a.join(b.v if isinstance(b, K) and isinstance(b.v, str) else None))
            if out is not None:
                return out
        if isinstance(e.op, (ast.Add, ast.Mod)):
            s = self.str_of(e, env, fi)
            if s is not None:
                return K(s)
            # path + suffix: keep the root, lose the exact name
            for a in alts(l):
                if isinstance(a, P) and isinstance(e.op, ast.Add):
                    suf = r.v if isinstance(r, K) and isinstance(r.v, str) else None
                    return P(a.root, (a.pat + suf) if suf is not None and a.pat is not None else None)
        return U

    def str_of(self, e, env, fi):
        names = {}
        for n in ast.walk(e):
            if isinstance(n, ast.Name) and n.id in env:
                v = env[n.id]
                if isinstance(v, K) and isinstance(v.v, (str, int)):
                    names[n.id] = str(v.v)
            if isinstance(n, ast.Attribute):
                d = dotted(n)
                if d:
                    v = self.ev(n, env, fi) if d.count('.') <= 2 else U
                    if isinstance(v, K) and isinstance(v.v, (str, int)):
                        names[d] = str(v.v)
        return str_eval(e, names, None)

    def ev_Subscript(self, e, env, fi):
        base = self.ev(e.value, env, fi)
        idx = None if isinstance(e.slice, ast.Slice) else self.ev(e.slice, env, fi)
        out = None
        for b in alts(base):
            if isinstance(b, A):
                out = join(out, b)                                  # basic/advanced indexing: may be a view of the map
            elif isinstance(b, L):
                k = const_value(e.slice)
                if isinstance(k, int) and b.exact and -len(b.items) <= k < len(b.items):
                    out = join(out, b.items[k])
                elif isinstance(e.slice, ast.Slice):
                    out = join(out, L(b.items, exact=False))
                else:
                    for it in b.items[:6]:
                        out = join(out, it)
            elif isinstance(b, R):
                k = const_value(e.slice)
                if isinstance(k, str) and k in b.fields:
                    out = join(out, b.fields[k])
                else:
                    out = join(out, U)
            else:
                out = join(out, U)
        return out if out is not None else U

    def ev_Attribute(self, e, env, fi):
        base = self.ev(e.value, env, fi)
        out = None
        for b in alts(base):
            if isinstance(b, O):
                if e.attr in b.fields:
                    out = join(out, b.fields[e.attr])
                    continue
                prop = self.repo.lookup_prop(b.cls, e.attr) if b.cls else None
                if prop and 'get' in prop:
                    out = join(out, self._invoke(prop['get'], e, [], {}, b))
                    continue
                ca = self.repo.lookup_class_attr(b.cls, e.attr) if b.cls else None
                if ca is not None:
                    out = join(out, self.ev(ca, {}, fi))
                    continue
                out = join(out, U)
            elif isinstance(b, R):
                out = join(out, b.fields.get(e.attr, U))
            elif isinstance(b, P):
                if e.attr == 'parent':
                    out = join(out, P(b.root, None if (b.pat is None or '/' not in b.pat and b.pat) and False else ('/'.join(b.pat.split('/')[:-1]) if b.pat else None)))
                elif e.attr in ('name', 'stem', 'suffix', 'parts'):
                    if b.pat is not None and '*' not in b.pat and '|' not in b.pat and b.pat:
                        nm = b.pat.split('/')[-1]
                        val = {'name': nm, 'stem': nm.rsplit('.', 1)[0] if '.' in nm else nm, 'suffix': ('.' + nm.rsplit('.', 1)[1]) if '.' in nm else ''}.get(e.attr)
                        out = join(out, K(val) if val is not None else U)
                    else:
                        out = join(out, U)
                else:
                    out = join(out, U)
            elif isinstance(b, A):
                out = join(out, b if e.attr in VIEW_METHODS or e.attr in ('data', 'base', 'real', 'imag', 'flat') else U)
            else:
                out = join(out, U)
        return out if out is not None else U

    # ------------------------------------------------------------------ calls
    def ev_Call(self, e, env, fi):
        self.calls_seen += 1
        args = []
        for a in e.args:
            v = self.ev(a, env, fi)
            if isinstance(a, ast.Starred):
                for x in alts(v):
                    if isinstance(x, L):
                        args.extend(x.items)
                        break
                else:
                    args.append(U)
            else:
                args.append(v)
        kwargs = {}
        for k in e.keywords:
            v = self.ev(k.value, env, fi)
            if k.arg:
                kwargs[k.arg] = v
            else:
                for x in alts(v):
                    if isinstance(x, R):
                        for kk, vv in x.fields.items():
                            kwargs.setdefault(kk, vv)
        name = dotted(e.func) or ''
        ext = self.repo.ext_name(fi, e.func)
        # ---- external primitives
        if ext is not None:
            r = self.primitive(ext, e, args, kwargs, env, fi)
            if r is not None:
                return r
        # ---- method on an abstract value
        if isinstance(e.func, ast.Attribute):
            recv = self.ev(e.func.value, env, fi)
            out = None
            handled = False
            for b in alts(recv):
                r = self.method(b, e.func.attr, e, args, kwargs, env, fi)
                if r is not None:
                    handled = True
                    out = join(out, r)
            if handled:
                return out
        # ---- repo callees
        tg = self.repo.resolve_call(fi, e)
        if not tg and isinstance(e.func, ast.Name) and e.func.id in env and isinstance(env[e.func.id], O):
            pass
        if tg:
            recvv = None
            if isinstance(e.func, ast.Attribute):
                recvv = self.ev(e.func.value, env, fi)
                if isinstance(e.func.value, ast.Call) and dotted(e.func.value.func) == 'super':
                    recvv = env.get(fi.self_name, U)
            elif isinstance(e.func, ast.Name) and fi.self_name and all(t.is_method and fi.cls is not None and t.cls is not None for t in tg) and \
                    e.func.id in fi.defs() and all(k_ in ('assign', 'for', 'unpack', 'comp') for k_, *_ in fi.defs()[e.func.id]):
                # a bound method held in a local (`for n, step in ((10, self.a), ...): step()`): the receiver is the object the table was built on
                recvv = env.get(fi.self_name, U)
            out = None
            for t in tg:
                if t.name == '__init__' and not (isinstance(e.func, ast.Attribute) and e.func.attr == '__init__'):
                    obj = O(t.cls)
                    self._invoke(t, e, args, kwargs, obj)
                    out = join(out, obj)
                else:
                    rv = recvv
                    if rv is not None:
                        for b in alts(rv):
                            out = join(out, self._invoke(t, e, args, kwargs, b if isinstance(b, O) else (b if b is not None else U)))
                    else:
                        out = join(out, self._invoke(t, e, args, kwargs, None))
            return out if out is not None else U
        # a callable stored in a variable / attribute: unknown effect-free call (recorded)
        return self.unknown_call(name, e, args, kwargs, env, fi)

    def unknown_call(self, name, e, args, kwargs, env, fi):
        if name == 'Bunch' or name.endswith('.Bunch'):
            return R(kwargs)
        if name in ('dict',):
            return R(kwargs)
        if name in ('list', 'tuple', 'sorted') and args:
            return args[0] if isinstance(args[0], L) else U
        if name == 'str' and args:
            return args[0]
        if name == 'next' and args:
            return self.elements(args[0])[0]
        if name in ('getattr',) and len(args) >= 2 and isinstance(args[1], K):
            for b in alts(args[0]):
                if isinstance(b, O) and args[1].v in b.fields:
                    return b.fields[args[1].v]
        return U

    def _invoke(self, t, call, args, kwargs, recv):
        key = (t.module.rel, t.qualname)
        if key in self.summaries:
            r = self.summaries[key](self, t, call, args, kwargs, recv)
            if r is not None:
                return r
        return self.call_function(t, call, args, kwargs, recv)

    def as_path(self, v):
        out = []
        for x in alts(v):
            if isinstance(x, P):
                out.append(x)
            elif isinstance(x, K) and isinstance(x.v, str):
                out.append(P('literal', x.v))
            elif isinstance(x, F):
                out.append(x.path)
            else:
                out.append(P('unknown', None))
        return out

    def primitive(self, ext, e, args, kwargs, env, fi):
        def arg(i, name=None):
            if len(args) > i:
                return args[i]
            return kwargs.get(name, None) if name else None

        def mode_of(v, default):
            if v is None:
                return default
            if isinstance(v, K):
                return v.v
            ms = [x.v for x in alts(v) if isinstance(x, K)]
            return ms if ms else '?'
        if ext in ('numpy.save', 'numpy.savez', 'numpy.savetxt', 'joblib.dump') or ext.endswith('.dump') and ext.startswith('joblib'):
            target = arg(0, 'file') if ext != 'joblib.dump' else arg(1, 'filename')
            for p in self.as_path(target if target is not None else U):
                if ext == 'numpy.save' and p.pat is not None and p.pat and not p.pat.endswith('.npy') and '*' not in p.pat:
                    p = P(p.root, p.pat + '.npy')
                self.emit('write', p, e, fi, ext)
            return K(None)
        if ext in ('numpy.load', 'numpy.memmap', 'numpy.lib.format.open_memmap'):
            src = self.as_path(arg(0, 'file') if arg(0, 'file') is not None else arg(0, 'filename') or U)[0]
            m = mode_of(arg(1, 'mmap_mode') if ext == 'numpy.load' else arg(2, 'mode'), None if ext == 'numpy.load' else 'r+')
            modes = m if isinstance(m, list) else [m]
            w = any(x in WRITE_MODES for x in modes)
            if any(x in ('w+',) for x in modes):
                self.emit('write', src, e, fi, '%s mode w+' % ext)
            return A(src, writable=w, mode=m)
        if ext in ('numpy.fromfile',):
            return A(self.as_path(arg(0, 'file') or U)[0], False)
        if ext in ('builtins.open', 'io.open', 'gzip.open'):
            p = self.as_path(arg(0, 'file') or U)[0]
            m = mode_of(arg(1, 'mode'), 'r')
            ms = m if isinstance(m, list) else [m]
            if any(isinstance(x, str) and any(ch in x for ch in 'wax+') for x in ms) or '?' in ms:
                self.emit('write', p, e, fi, "open(mode=%r)" % (m,))
            return F(p, m)
        if ext in ('shutil.copy', 'shutil.copyfile', 'shutil.copy2', 'shutil.copytree'):
            # follow_symlinks=False (copytree: symlinks=True) re-creates a source link at the destination: the "copy" is then another name of the link's target
            fl = kwargs.get('follow_symlinks') if ext != 'shutil.copytree' else kwargs.get('symlinks')
            links = isinstance(fl, K) and ((ext != 'shutil.copytree' and fl.v is False) or (ext == 'shutil.copytree' and fl.v is True))
            maybe = fl is not None and not isinstance(fl, K)
            for p in self.as_path(arg(1, 'dst') or U):
                self.emit('write', p, e, fi, '%s from %s' % (ext, arg(0, 'src')))
                if links or maybe:
                    self.emit('alias', p, e, fi, '%s(%s) from %s: a source that is a symbolic link is re-created as a link' % (ext, 'follow_symlinks=False' if ext != 'shutil.copytree' else 'symlinks=True', arg(0, 'src')))
            return U
        if ext in ('os.link', 'os.symlink'):
            # dst becomes another name of src: every later write through one name writes the other
            for p in self.as_path(arg(1, 'dst') or U):
                self.emit('alias', p, e, fi, '%s from %s' % (ext, arg(0, 'src')))
                self.emit('write', p, e, fi, '%s from %s' % (ext, arg(0, 'src')))
            return U
        if ext in ('shutil.move', 'os.rename', 'os.replace'):
            for p in self.as_path(arg(0, 'src') or U):
                self.emit('delete', p, e, fi, ext)
            for p in self.as_path(arg(1, 'dst') or U):
                self.emit('write', p, e, fi, ext)
            return U
        if ext in ('shutil.rmtree', 'os.remove', 'os.unlink', 'os.rmdir', 'os.removedirs'):
            for p in self.as_path(arg(0, 'path') or U):
                self.emit('delete', p, e, fi, ext)
            return K(None)
        if ext in ('os.mkdir', 'os.makedirs'):
            for p in self.as_path(arg(0, 'name') or U):
                self.emit('mkdir', p, e, fi, ext)
            return K(None)
        if ext in ('pathlib.Path', 'os.path.join', 'os.path.abspath', 'os.path.expanduser', 'os.fspath', 'builtins.str', 'os.path.realpath'):
            if ext == 'os.path.join' and args:
                base = args[0]
                out = None
                for b in self.as_path(base):
                    cur = b
                    for x in args[1:]:
                        cur = cur.join(x.v if isinstance(x, K) and isinstance(x.v, str) else None)
                    out = join(out, cur)
                return out
            if args:
                v = args[0]
                out = None
                for x in alts(v):
                    if isinstance(x, K) and isinstance(x.v, str):
                        out = join(out, P('literal', x.v) if ext == 'pathlib.Path' else x)
                    else:
                        out = join(out, x)
                return out
            return U
        if ext in VIEW_FUNCS and args:
            return args[0] if any(isinstance(x, A) for x in alts(args[0])) else U
        if ext in INPLACE_FUNCS and args:
            for x in alts(args[0]):
                if isinstance(x, A) and x.writable:
                    self.emit('mmap-write', x.src, e, fi, '%s on an array mapped writable' % ext)
            return K(None)
        if ext.startswith('numpy.') and 'out' in kwargs:
            for x in alts(kwargs['out']):
                if isinstance(x, A) and x.writable:
                    self.emit('mmap-write', x.src, e, fi, 'out= an array mapped writable')
        if ext == 'scipy.io.savemat':
            for p in self.as_path(arg(0) or U):
                self.emit('write', p, e, fi, ext)
            return K(None)
        if ext == 'subprocess.check_output' or ext.startswith('subprocess.'):
            return U
        return None

    def method(self, b, m, e, args, kwargs, env, fi):
        def mode_of(v, default):
            if v is None:
                return default
            return v.v if isinstance(v, K) else '?'
        if isinstance(b, P):
            if m == 'open':
                md = mode_of(args[0] if args else kwargs.get('mode'), 'r')
                if md == '?' or any(ch in md for ch in 'wax+'):
                    self.emit('write', b, e, fi, 'Path.open(%r)' % md)
                return F(b, md)
            if m in ('write_text', 'write_bytes', 'touch'):
                self.emit('write', b, e, fi, 'Path.%s' % m)
                return K(None)
            if m in ('unlink', 'rmdir'):
                self.emit('delete', b, e, fi, 'Path.%s' % m)
                return K(None)
            if m in ('hardlink_to', 'symlink_to'):
                self.emit('alias', b, e, fi, 'Path.%s %s' % (m, args[0] if args else '?'))
                self.emit('write', b, e, fi, 'Path.%s %s' % (m, args[0] if args else '?'))
                return K(None)
            if m == 'link_to':
                for p in self.as_path(args[0] if args else U):
                    self.emit('alias', p, e, fi, 'Path.link_to from %s' % b)
                    self.emit('write', p, e, fi, 'Path.link_to from %s' % b)
                return K(None)
            if m in ('rename', 'replace'):
                self.emit('delete', b, e, fi, 'Path.%s (source)' % m)
                for p in self.as_path(args[0] if args else U):
                    self.emit('write', p, e, fi, 'Path.%s (target)' % m)
                return args[0] if args else U
            if m == 'mkdir':
                self.emit('mkdir', b, e, fi, 'Path.mkdir')
                return K(None)
            if m in ('resolve', 'absolute', 'expanduser', 'as_posix', '__str__', '__fspath__'):
                return b
            if m == 'joinpath':
                cur = b
                for x in args:
                    cur = cur.join(x.v if isinstance(x, K) and isinstance(x.v, str) else None)
                return cur
            if m in ('with_suffix', 'with_name'):
                return P(b.root, None)
            if m in ('glob', 'rglob', 'iterdir'):
                pat = args[0].v if args and isinstance(args[0], K) else '*'
                return L([b.join(pat)], exact=False)
            if m in ('exists', 'is_dir', 'is_file', 'is_symlink', 'stat', 'read_text', 'read_bytes', 'samefile'):
                return U
            return U
        if isinstance(b, F):
            if m in ('write', 'writelines', 'truncate'):
                md = b.mode if isinstance(b.mode, str) else '?'
                if md == '?' or any(ch in md for ch in 'wax+'):
                    return K(None)      # the open() already carries the effect
                self.emit('write', b.path, e, fi, 'write on a file opened %r' % md)
                return K(None)
            return U
        if isinstance(b, A):
            if m in VIEW_METHODS:
                return b
            if m in ('astype', 'copy', 'tolist', 'tobytes', 'mean', 'sum', 'max', 'min'):
                return A(None, False) if m in ('astype', 'copy') else U
            if m in INPLACE_METHODS:
                if b.writable:
                    self.emit('mmap-write', b.src, e, fi, '.%s() on an array mapped writable' % m)
                return K(None)
            if m == 'tofile':
                for p in self.as_path(args[0] if args else U):
                    self.emit('write', p, e, fi, 'ndarray.tofile')
                return K(None)
            return U
        if isinstance(b, L):
            if m in ('append', 'extend', 'insert') and args:
                if m == 'append':
                    b.items.append(args[0])
                elif m == 'extend':
                    for x in alts(args[0]):
                        if isinstance(x, L):
                            b.items.extend(x.items)
                            b.exact = b.exact and x.exact
                        else:
                            b.exact = False
                return K(None)
            return None
        if isinstance(b, R):
            if m == 'get' and args and isinstance(args[0], K):
                return b.fields.get(args[0].v, args[1] if len(args) > 1 else K(None))
            if m == 'pop' and args and isinstance(args[0], K):
                return b.fields.pop(args[0].v, args[1] if len(args) > 1 else U)
            if m == 'update':
                for x in alts(args[0]) if args else []:
                    if isinstance(x, R):
                        b.fields.update(x.fields)
                b.fields.update(kwargs)
                return K(None)
            if m in ('items', 'values', 'keys'):
                return L(list(b.fields.values()) if m == 'values' else [U], exact=False)
            return None
        return None


def _load(t):
    import copy
    t2 = copy.deepcopy(t)
    for n in ast.walk(t2):
        if hasattr(n, 'ctx'):
            n.ctx = ast.Load()
    return t2


def pat_match(pat, allowed):
    """Does every name a path pattern can denote match the allowed glob? pat may contain '|' alternatives and '*'."""
    if pat is None:
        return False
    for alt in pat.split('|'):
        if not (alt == allowed or fnmatch.fnmatchcase(alt, allowed)):
            return False
    return True
