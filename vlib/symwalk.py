"""SymInterp: the proto walk with comparisons decided by normal forms where possible.

A comparison `l OP r` is decided when nf(l) - nf(r) is a constant, or +-(one atom assumed positive /
non-negative by the obligation's stated preconditions); otherwise the path forks as usual (facts).
Pure builtins (max, min, int, len, abs, float, round, slice, isinstance, tuple, list) give
non-fresh terms so that the same expression evaluated twice is the same term.
"""
import ast
from fractions import Fraction as Fr

from . import proto
from .proto import C, T, is_c, is_t
from .sym import NF, Lin, equal, canon

PURE = {'max', 'min', 'int', 'len', 'abs', 'float', 'round', 'slice', 'isinstance', 'tuple', 'str', 'bool',
        'np.asarray', 'np.max', 'np.min', 'np.all', 'np.diff', 'np.unique', 'np.searchsorted', 'ceil', 'floor', 'getattr',
        'np.array', 'np.arange', 'np.cumsum', 'sorted', 'zip', 'enumerate', 'range'}


class SymInterp(proto.Interp):
    def __init__(self, repo, unroll=2, inline_depth=3, pos=(), nonneg=(), binds=None):
        super().__init__(repo, unroll=unroll, inline_depth=inline_depth)
        self.nf = NF(binds)
        self.pos = [self.nf(t) for t in pos]          # terms assumed > 0
        self.nonneg = [self.nf(t) for t in nonneg]    # terms assumed >= 0
        self.pure = set(PURE)

    def default_call(self, call, name, recv, args, kwargs, st):
        if name == 'len' and recv is None and len(args) == 1 and is_t(args[0]) and args[0][1] in ('tuple', 'list') and \
                not any(is_t(x) and x[1] == 'star' for x in args[0][2:]):
            return [('ok', C(len(args[0]) - 2), st)]
        if name in self.pure and recv is None:
            if name == 'range' and args and all(is_c(a) and isinstance(a[1], int) for a in args) and not kwargs:
                return [('ok', T('list', *[C(i) for i in range(*[a[1] for a in args])]), st)]
            return [('ok', T('call', name, C(0), *(tuple(args) + tuple(T('kw', k, v) for k, v in sorted(kwargs.items())))), st)]
        if name in self.pure and recv is not None and isinstance(call.func, ast.Attribute) and proto.dotted(call.func) in self.pure:
            return [('ok', T('call', name, C(0), *(tuple(args) + tuple(T('kw', k, v) for k, v in sorted(kwargs.items())))), st)]
        return super().default_call(call, name, recv, args, kwargs, st)

    def sign(self, d, depth=0):
        """'+', '0', '-', '>=0', '<=0' or None for a normal form. Sufficient syntactic rules only:
        constants; multiples of atoms assumed positive / non-negative; floor-division facts;
        max(..) >= each argument and min(..) <= each argument (the rest of the sum is pushed into one max/min atom)."""
        if d.is_zero():
            return '0'
        if d.is_const():
            return '+' if d.cval() > 0 else '-'
        # compound assumptions (e.g. chunk_size - overlap > 0): subtract the positive multiple that cancels one of its atoms
        if depth < 3:
            for p, strict in [(p, True) for p in self.pos] + [(p, False) for p in self.nonneg]:
                atoms = [k for k in p.d if k != '1']
                if len(atoms) < 2:
                    continue
                for a in atoms:
                    if a in d.d and d.d[a] * p.d[a] > 0:
                        k = Fr(d.d[a]) / Fr(p.d[a])
                        r = d - p.scale(k)
                        sg = '0' if r.is_zero() else self.sign(r, depth + 1)
                        if sg == '+' or (sg in ('>=0', '0') and strict):
                            return '+'
                        if sg in ('>=0', '0'):
                            return '>=0'
        const = d.cval()
        rest = Lin({k: v for k, v in d.d.items() if k != '1'})
        # sum of terms of one sign: c0 + sum c_i * atom_i with atoms of known sign
        signs = []
        for k, v in rest.d.items():
            a = Lin.atom(k)
            sa = None
            if any(a == p for p in self.pos):
                sa = '+'
            elif any(a == p for p in self.nonneg):
                sa = '>=0'
            elif isinstance(k, tuple) and k[0] == 'fdiv' and k[2].is_const() and k[2].cval() >= 1 and depth < 4 and \
                    self.sign(k[1], depth + 1) in ('+', '>=0', '0'):
                sa = '>=0'
            elif isinstance(k, tuple) and k[0] == 'prod' and depth < 4:
                fs = [self.sign(Lin.atom(f) if not isinstance(f, Lin) else f, depth + 1) for f in k[1:]]
                if all(f == '+' for f in fs):
                    sa = '+'
                elif all(f in ('+', '>=0', '0') for f in fs):
                    sa = '>=0'
            elif isinstance(k, tuple) and k[0] == 'len':
                sa = '>=0'
            if sa is None:
                signs = None
                break
            if v < 0:
                sa = {'+': '-', '>=0': '<=0'}[sa]
            signs.append(sa)
        if signs is not None:
            if const > 0:
                signs.append('+')
            elif const < 0:
                signs.append('-')
            if all(x in ('+', '>=0') for x in signs):
                return '+' if '+' in signs else '>=0'
            if all(x in ('-', '<=0') for x in signs):
                return '-' if '-' in signs else '<=0'
        # x - fdiv(x, c) >= 0 for x >= 0, c >= 1
        for k, v in d.d.items():
            if isinstance(k, tuple) and k[0] == 'fdiv' and k[2].is_const() and k[2].cval() >= 1 and depth < 4:
                if self.sign(k[1], depth + 1) in ('+', '>=0', '0'):
                    if (d - (k[1] - Lin.atom(k))).is_zero():
                        return '>=0'
                    if (d + (k[1] - Lin.atom(k))).is_zero():
                        return '<=0'
        # push the rest of the sum into one max/min atom and use  max >= each argument, min <= each argument
        if depth < 4:
            for k, v in d.d.items():
                if isinstance(k, tuple) and k[0] in ('max', 'min') and v in (1, -1):
                    others = Lin({a: c for a, c in d.d.items() if a != k})
                    kind = k[0] if v == 1 else ('min' if k[0] == 'max' else 'max')
                    args = [canon(a.scale(v) + others) for a in k[1:]]
                    sg = [self.sign(a, depth + 1) for a in args]
                    if kind == 'max':
                        if any(x == '+' for x in sg):
                            return '+'
                        if any(x in ('>=0', '0') for x in sg):
                            return '>=0'
                        if all(x == '-' for x in sg):
                            return '-'
                        if all(x in ('-', '<=0', '0') for x in sg):
                            return '<=0'
                    else:
                        if any(x == '-' for x in sg):
                            return '-'
                        if any(x in ('<=0', '0') for x in sg):
                            return '<=0'
                        if all(x == '+' for x in sg):
                            return '+'
                        if all(x in ('+', '>=0', '0') for x in sg):
                            return '>=0'
        if depth == 0:
            c = canon(d)
            if c != d:
                return self.sign(c, 1)
        return None

    integer = True      # all quantities compared by ge0/resolve are integer-valued (indices, sizes)

    def ge0(self, d):
        """d >= 0 is derivable (for integer-valued forms, d > -1 suffices)."""
        sg = self.sign(d)
        if sg in ('+', '>=0', '0'):
            return True
        return bool(self.integer and self.sign(d + Lin.const(1)) == '+')

    def resolve(self, d, depth=0):
        """Replaces max/min atoms whose arguments are ordered under the stated assumptions by the dominating argument
        (max(a, b) = a when a - b >= 0 is derivable), innermost first."""
        from .sym import mk_ext
        out = Lin()
        for k, v in d.d.items():
            if isinstance(k, tuple) and k[0] in ('max', 'min') and depth < 5:
                args = [self.resolve(a, depth + 1) for a in k[1:]]
                keep = list(args)
                for a in args:
                    for b in args:
                        if a is b or not any(a is x for x in keep) or not any(b is x for x in keep) or len(keep) < 2:
                            continue
                        if self.ge0(a - b):          # a >= b
                            drop = b if k[0] == 'max' else a
                            keep = [x for x in keep if x is not drop]
                out = out + mk_ext(k[0], keep).scale(v)
            else:
                out = out + Lin({k: v})
        return out

    def same(self, a, b):
        from .sym import equal
        return equal(a, b) or equal(self.resolve(a), self.resolve(b))

    def interpreted(self, d):
        """True when the normal form is built only from parameters, bound spec variables, constants and
        + - * // max min: then it is exact, and a sign the rules cannot derive almost surely does not hold for all inputs."""
        def ok_atom(k):
            if k == '1':
                return True
            if isinstance(k, tuple):
                if k[0] == 'param' or (len(k) == 1 and isinstance(k[0], str)):
                    return True
                if k[0] in ('max', 'min', 'fdiv', 'prod'):
                    return all(ok(x) for x in k[1:])
                return False
            return False

        def ok(x):
            if isinstance(x, Lin):
                return all(ok_atom(k) for k in x.d)
            return ok_atom(x)
        return ok(d)

    def can_exceed_zero(self, d):
        """d >= 0 is known and d is a non-zero positive combination of precondition atoms (or floor-divisions of them):
        for large values of those free parameters d > 0."""
        if d.is_zero() or d.cval() < 0:
            return False
        for k, v in d.d.items():
            if k == '1':
                continue
            a = Lin.atom(k)
            base = any(a == p for p in self.pos + self.nonneg)
            fd = isinstance(k, tuple) and k[0] == 'fdiv' and k[2].is_const() and k[2].cval() >= 1 and any(k[1] == p for p in self.pos + self.nonneg)
            if not (base or fd) or v < 0:
                return False
        return True

    arrays = ()     # terms that denote arrays: comparisons on them are elementwise terms, not path forks

    def is_array(self, v):
        return any(x in self.arrays for x in proto.subterms(v))

    def _compare(self, e, st):
        # elementwise comparison on an array operand: build a term
        if len(e.ops) == 1 and self.arrays:
            out = []
            hit = False
            for l, s in self.ev(e.left, st):
                for r, s2 in self.ev(e.comparators[0], s):
                    if self.is_array(l) or self.is_array(r):
                        hit = True
                        opn = type(e.ops[0]).__name__
                        flip = {'Gt': 'Lt', 'GtE': 'LtE'}
                        if opn in flip:
                            opn, l, r = flip[opn], r, l
                        out.append((T('cmp', opn, l, r), s2))
            if hit:
                return [('arr', v, s) for v, s in out]
        return super()._compare(e, st)

    def truth(self, e, st):
        if isinstance(e, ast.Compare):
            res = self._compare(e, st)
            if res and res[0][0] == 'arr':
                out = []
                for _, v, s in res:
                    out.extend(self.truth_of(v, s))
                return out
            return res
        return super().truth(e, st)

    def ev_Compare(self, e, st):
        res = self._compare(e, st)
        if res and res[0][0] == 'arr':
            return [(v, s) for _, v, s in res]
        return [(C(b), s) for b, s in res]

    def cmp(self, op, l, r, st):
        name = type(op).__name__
        if name in ('Eq', 'NotEq', 'Lt', 'LtE', 'Gt', 'GtE') and not (is_c(l) and is_c(r)):
            try:
                d = self.nf(l) - self.nf(r)
                sg = self.sign(d)
            except Exception:
                sg = None
            if sg in ('+', '0', '-'):
                rel = {'+': '>', '0': '=', '-': '<'}[sg]
                truth = {'Eq': rel == '=', 'NotEq': rel != '=', 'Lt': rel == '<', 'LtE': rel in '<=', 'Gt': rel == '>', 'GtE': rel in '>='}[name]
                return [(truth, st)]
            if sg == '>=0' and name in ('Lt', 'GtE'):
                return [(name == 'GtE', st)]
            if sg == '<=0' and name in ('Gt', 'LtE'):
                return [(name == 'LtE', st)]
        return super().cmp(op, l, r, st)

    def eq(self, a, b):
        return equal(self.nf(a), self.nf(b))

    def truth_of(self, v, st):
        """truth of a NUMBER is `v != 0`: decided by the sign rules or by a comparison already taken on this path (`n = -t0` after `t0 < 0` is non-zero),
        so that `if n_before or n_after:` does not fork into the infeasible branch"""
        if is_t(v) and v[1] in ('Add', 'Sub', 'Neg', 'USub', 'Mult', 'param', 'name', 'call') and not self.is_array(v):
            try:
                d = self.nf(v)
            except Exception:
                d = None
            if d is not None and not d.is_zero():
                sg = self.sign(d)
                if sg in ('+', '-'):
                    return [(True, st)]
                for key, rel_ in st.facts.items():
                    if isinstance(key, tuple) and key and key[0] == 'rel' and rel_ in ('<', '=', '>'):
                        try:
                            dl = self.nf(key[1]) - self.nf(key[2])
                        except Exception:
                            continue
                        if equal(d, dl) or equal(d, -dl):
                            return [(rel_ != '=', st)]
        return super().truth_of(v, st)
