"""proto: path-sensitive abstract walk of small functions (typestate / protocol obligations).

All paths of a function are enumerated over its *syntax* (structured statements: if / for / while /
try-except-finally / with / return / raise / break / continue), with a store of abstract values:

  ('c', v)                  a Python constant (None, True, False, numbers, strings)
  ('t', op, a1, ..., an)    an uninterpreted term (parameter, call result, attribute, operator)

Conditions whose value is not determined by the store FORK the path; the chosen outcome is recorded
as a fact keyed by the condition's term so that re-evaluating the same condition on the same path
is consistent (no solver: facts are looked up syntactically, comparisons on the same ordered pair
of terms share one trichotomy fact '<' / '=' / '>').  Repo callees can be inlined (bounded depth);
everything else is an uninterpreted call that may be declared may-raise.  Calls produce events in
the path's trace through a hook.  Loops are unrolled 0..bound times.

This is a model check of the program's own control structure under a finite abstraction - states
and transitions are extracted from the source on every run (DESIGN §4.4).
"""
import ast

from .front import unparse, dotted, const_value, FuncInfo, attr_chain

MAX_PATHS = 20000


def C(v):
    return ('c', v)


def T(op, *args):
    return ('t', op) + tuple(args)


def is_c(v):
    return isinstance(v, tuple) and v and v[0] == 'c'


def is_t(v):
    return isinstance(v, tuple) and v and v[0] == 't'


def show(v):
    if is_c(v):
        return repr(v[1])
    if is_t(v):
        if len(v) == 2:
            return str(v[1])
        return '%s(%s)' % (v[1], ', '.join(show(a) for a in v[2:]))
    return str(v)


def subterms(v):
    yield v
    if is_t(v):
        for a in v[2:]:
            yield from subterms(a)


def _iter_sentinel_loop(s):
    """`for x in iter(f, sentinel): body [else: orelse]`  ->  `while True: x = f(); if x == sentinel: orelse; break; body` (None when the loop is not of that
    form). A zero-argument lambda is applied by substituting its body."""
    it = s.iter
    if not (isinstance(it, ast.Call) and isinstance(it.func, ast.Name) and it.func.id == 'iter' and len(it.args) == 2 and not it.keywords):
        return None
    f, sent = it.args
    if isinstance(f, ast.Lambda):
        a = f.args
        if a.args or a.posonlyargs or a.kwonlyargs or a.vararg or a.kwarg:
            return None
        val = f.body
    else:
        val = ast.Call(func=f, args=[], keywords=[])
    import copy as _copy
    tgt_load = _copy.deepcopy(s.target)
    for n in ast.walk(tgt_load):
        if hasattr(n, 'ctx'):
            n.ctx = ast.Load()
    get = ast.Assign(targets=[s.target], value=val)
    stop = ast.If(test=ast.Compare(left=tgt_load, ops=[ast.Eq()], comparators=[sent]), body=list(s.orelse) + [ast.Break()], orelse=[])
    w = ast.While(test=ast.Constant(value=True), body=[get, stop] + list(s.body), orelse=[])
    for n in ast.walk(w):
        if not hasattr(n, 'lineno'):
            ast.copy_location(n, s)
    return ast.fix_missing_locations(w)


# NumPy functions that build and return an array (never None): `x = np.unique(x); if x is not None:` does not fork
NP_VALUE_FUNCS = frozenset('np.' + n for n in (
    'unique sort asarray array arange zeros ones empty full zeros_like ones_like empty_like concatenate hstack vstack dstack stack intersect1d union1d setdiff1d '
    'atleast_1d atleast_2d nonzero flatnonzero where cumsum diff isin in1d searchsorted argsort argmax argmin bincount tile repeat ravel reshape transpose '
    'squeeze maximum minimum clip round floor ceil abs sum prod mean max min dot matmul take compress linspace').split())

class State:
    __slots__ = ('env', 'heap', 'facts', 'trace', 'depth', 'seq')

    def __init__(self, env=None, heap=None, facts=None, trace=(), depth=0, seq=0):
        self.env = dict(env or {})
        self.heap = dict(heap or {})
        self.facts = dict(facts or {})
        self.trace = tuple(trace)
        self.depth = depth
        self.seq = seq          # path-local counter: results of uninterpreted calls are fresh terms

    def copy(self):
        return State(self.env, self.heap, self.facts, self.trace, self.depth, self.seq)

    def fresh(self):
        s = self.copy()
        s.seq += 1
        return s.seq, s

    def emit(self, *ev):
        s = self.copy()
        s.trace = s.trace + (tuple(ev),)
        return s

    def with_fact(self, key, val):
        s = self.copy()
        s.facts[key] = val
        return s


class PathLimit(Exception):
    pass


_KNOWN = None


def known_functions():
    """Qualified names of the repo functions that existed on the pinned tree (obligations/known_functions.json)."""
    global _KNOWN
    if _KNOWN is None:
        import json
        from pathlib import Path
        try:
            _KNOWN = set(json.loads((Path(__file__).resolve().parent.parent / 'obligations' / 'known_functions.json').read_text())['functions'])
        except Exception:
            _KNOWN = set()
    return _KNOWN


class Interp:
    """Subclass / configure: on_call(call, name, args, kwargs, state) -> None | list[(kind, value, state)]."""

    def __init__(self, repo, unroll=2, inline_depth=4):
        self.repo = repo
        self.unroll = unroll
        self.inline_depth = inline_depth
        self.n_paths = 0
        self.may_raise = {}        # callee text -> exception name
        self.inline = set()        # FuncInfo nodes (ast) allowed to be inlined
        self.auto_inline = True    # callees introduced after the pinned tree are inlined (see known_functions)
        self.fi_stack = []

    # ------------------------------------------------------------------ hooks
    def on_call(self, call, name, args, kwargs, st):
        return None

    def on_attr_load(self, node, base, st):
        return None

    def on_attr_store(self, target, base, value, st):
        return None

    def on_fork(self, key, st):
        """Return a restricted list of outcomes for a fork key, or None for the default."""
        return None

    # ------------------------------------------------------------------ expressions -> list[(value, state)]
    def ev(self, e, st):
        m = getattr(self, 'ev_' + type(e).__name__, None)
        if m is None:
            return [(T('expr', unparse(e)), st)]
        return m(e, st)

    def ev_Constant(self, e, st):
        return [(C(e.value), st)]

    def ev_Name(self, e, st):
        if e.id in st.env:
            return [(st.env[e.id], st)]
        if e.id in ('True', 'False', 'None'):
            return [(C({'True': True, 'False': False, 'None': None}[e.id]), st)]
        return [(T('name', e.id), st)]

    def ev_Attribute(self, e, st):
        out = []
        for base, s in self.ev(e.value, st):
            r = self.on_attr_load(e, base, s)
            if r is not None:
                out.extend(r)
                continue
            key = (base, e.attr)
            if key in s.heap:
                out.append((s.heap[key], s))
                continue
            nt = self._namedtuple_of(base)
            if nt is not None:
                ci, fields = nt
                if e.attr in fields:
                    out.append((base[2:][fields.index(e.attr)], s))          # c.func on a named tuple = c[2]
                    continue
                pr = self.repo.lookup_prop(ci, e.attr) if ci is not None else None
                if pr and 'get' in pr and len(self.fi_stack) < 12:
                    for kind, val, s2 in self.call_function(pr['get'], [], {}, s, recv=base):
                        if kind == 'ok':
                            out.append((val, s2))
                    continue
            out.append((T('attr', base, e.attr), s))
        return out

    def _namedtuple_classes(self):
        """[(ClassInfo or None, class name, fields)] for `class X(namedtuple('X', fields))` and `X = namedtuple('X', fields)` in the walked function's module."""
        if not self.fi_stack:
            return []
        mod = self.fi_stack[-1].module
        cache = self.__dict__.setdefault('_nt_cache', {})
        if mod.rel in cache:
            return cache[mod.rel]

        def fields_of(call):
            if isinstance(call, ast.Call) and (dotted(call.func) or '').split('.')[-1] == 'namedtuple' and len(call.args) >= 2:
                f = call.args[1]
                if isinstance(f, (ast.Tuple, ast.List)) and all(isinstance(const_value(x), str) for x in f.elts):
                    return [const_value(x) for x in f.elts]
                if isinstance(const_value(f), str):
                    return const_value(f).replace(',', ' ').split()
            return None
        out = []
        for ci in mod.classes.values():
            for b in ci.node.bases:
                fs = fields_of(b)
                if fs:
                    out.append((ci, ci.name, fs))
        for name, expr in mod.consts.items():
            fs = fields_of(expr)
            if fs:
                out.append((None, name, fs))
        cache[mod.rel] = out
        return out

    def _namedtuple_of(self, term):
        """The named-tuple class a tuple term can be an instance of (unique by arity in the module), or None."""
        if not (is_t(term) and term[1] == 'tuple'):
            return None
        cands = [(ci, fs) for ci, name, fs in self._namedtuple_classes() if len(fs) == len(term) - 2]
        return cands[0] if len(cands) == 1 else None

    def ev_Subscript(self, e, st):
        out = []
        for base, s in self.ev(e.value, st):
            was_ref = self._is_ref(base)
            if was_ref:
                base = s.heap.get(base, base)
            seq = is_t(base) and base[1] in ('tuple', 'list')
            if isinstance(e.slice, ast.Slice):
                if seq and was_ref and all(x is None or isinstance(const_value(x), int) for x in (e.slice.lower, e.slice.upper, e.slice.step)):
                    sl = slice(*(None if x is None else const_value(x) for x in (e.slice.lower, e.slice.upper, e.slice.step)))
                    ref, s2 = self._alloc(T('list', *base[2:][sl]), s)     # slicing a list copies it
                    out.append((ref, s2))
                elif seq and all(x is None or isinstance(const_value(x), int) for x in (e.slice.lower, e.slice.upper, e.slice.step)):
                    sl = slice(*(None if x is None else const_value(x) for x in (e.slice.lower, e.slice.upper, e.slice.step)))
                    out.append((T(base[1], *base[2:][sl]), s))
                else:
                    for sl, s2 in self.ev_Slice(e.slice, s):
                        out.append((T('index', base, sl), s2))
            else:
                for i, s2 in self.ev(e.slice, s):
                    if seq and is_c(i) and isinstance(i[1], int) and not isinstance(i[1], bool) and -len(base[2:]) <= i[1] < len(base[2:]):
                        out.append((base[2:][i[1]], s2))
                    else:
                        out.append((T('index', base, i), s2))
        return out

    def ev_Slice(self, e, st):
        acc = [((), st)]
        for part in (e.lower, e.upper, e.step):
            nxt = []
            for vals, s in acc:
                if part is None:
                    nxt.append((vals + (C(None),), s))
                else:
                    for v, s2 in self.ev(part, s):
                        nxt.append((vals + (v,), s2))
            acc = nxt
        return [(T('slice3', *vals), s) for vals, s in acc]

    def ev_Tuple(self, e, st):
        return self._ev_seq(e.elts, st, 'tuple')

    def ev_List(self, e, st):
        res = self._ev_seq(e.elts, st, 'list')
        if not self.model_lists:
            return res
        out = []
        for v, s in res:
            out.append(self._alloc(v, s))
        return out

    # ---- optional heap model of lists (by reference, so that aliasing is visible)
    model_lists = False

    @staticmethod
    def _is_ref(v):
        return is_t(v) and v[1] == 'ref'

    def _alloc(self, content, st):
        n, s = st.fresh()
        ref = T('ref', C(n))
        s.heap[ref] = content
        return ref, s

    def deref(self, v, st):
        return st.heap.get(v, v) if self._is_ref(v) else v

    def _ev_seq(self, elts, st, op):
        acc = [((), st)]
        for x in elts:
            nxt = []
            for vals, s in acc:
                if isinstance(x, ast.Starred):
                    for v, s2 in self.ev(x.value, s):
                        c_ = s2.heap.get(v, v) if self._is_ref(v) else v
                        if is_t(c_) and c_[1] in ('list', 'tuple') and not any(is_t(y) and y[1] == 'star' for y in c_[2:]):
                            nxt.append((vals + tuple(c_[2:]), s2))          # [*concrete, x]: the items themselves
                        else:
                            nxt.append((vals + (T('star', v),), s2))
                else:
                    for v, s2 in self.ev(x, s):
                        nxt.append((vals + (v,), s2))
            acc = nxt
        return [(T(op, *vals), s) for vals, s in acc]

    def ev_JoinedStr(self, e, st):
        acc = [('', st)]
        for v in e.values:
            nxt = []
            for txt, s in acc:
                if txt is None:
                    nxt.append((None, s))
                elif isinstance(v, ast.Constant):
                    nxt.append((txt + str(v.value), s))
                else:
                    for val, s2 in self.ev(v.value, s):
                        if is_c(val) and isinstance(val[1], (str, int)) and v.format_spec is None and v.conversion in (-1, 115):
                            nxt.append((txt + str(val[1]), s2))
                        else:
                            nxt.append((None, s2))
            acc = nxt
        return [((C(txt) if txt is not None else T('fstring', unparse(e))), s) for txt, s in acc]

    def ev_Lambda(self, e, st):
        # closures are kept by their text (the term stays comparable); applied by apply_lambda
        if not hasattr(self, '_lambdas'):
            self._lambdas = {}
        self._lambdas[unparse(e)] = (e, dict(st.env))
        return [(T('lambda', unparse(e)), st)]

    def apply_lambda(self, fterm, args, st):
        """-> list[(value, state)] of applying a lambda term to positional arguments, or None when it is not a known lambda."""
        if is_t(fterm) and fterm[1] == 'name' and len(fterm) >= 3 and self.fi_stack and len(self.fi_stack) < 10:
            # a repo function passed by name (reduce(_step, seq, init), map(f, xs)): applied like a call of that name
            nm = fterm[2]
            nm = nm[1] if isinstance(nm, tuple) and len(nm) == 2 and nm[0] in ('c', 'raw') else nm
            if isinstance(nm, str):
                try:
                    r_ = self.repo.resolve_name(self.fi_stack[-1].module, nm.split('.')[-1]) if '.' not in nm else None
                except Exception:
                    r_ = None
                f_ = r_ if r_ is not None and hasattr(r_, 'params') else None
                if f_ is None:
                    f_ = self.fi_stack[-1].module.funcs.get(nm)
                if f_ is not None and not f_.yields() and len(f_.real_params) >= len(args) and not f_.is_method:
                    return [(v, s2) for kind, v, s2 in self.call_function(f_, list(args), {}, st) if kind == 'ok']
            return None
        if not (is_t(fterm) and fterm[1] == 'lambda' and len(fterm) >= 3 and fterm[2] in getattr(self, '_lambdas', {})):
            return None
        node, cenv = self._lambdas[fterm[2]]
        a = node.args
        if a.vararg or a.kwarg or a.kwonlyargs or len(a.args) != len(args):
            return None
        env = dict(cenv)
        for p_, v_ in zip(a.args, args):
            env[p_.arg] = v_
        s0 = State(env, st.heap, st.facts, st.trace, st.depth + 1, st.seq)
        out = []
        for val, s in self.ev(node.body, s0):
            out.append((val, State(st.env, s.heap, s.facts, s.trace, st.depth, s.seq)))
        return out

    def ev_Dict(self, e, st):
        return [(T('dict', unparse(e)), st)]

    def ev_ListComp(self, e, st):
        # a comprehension with one generator over a concrete abstract list is evaluated element by element
        if len(e.generators) == 1 and not e.generators[0].is_async:
            g = e.generators[0]
            res = []
            for itv, s0 in self.ev(g.iter, st):
              for seq in self.for_elements(g, itv, s0):
                work = [((), s0)]
                for el in seq:
                    nxt = []
                    for acc, s in work:
                        for s1 in self.assign_to(g.target, el, s):
                            conds = [(True, s1)]
                            for c in g.ifs:
                                conds = [(b2, s3) for b, s2 in conds for b2, s3 in (self.truth(c, s2) if b else [(False, s2)])]
                            for b, s2 in conds:
                                if b:
                                    for v, s3 in self.ev(e.elt, s2):
                                        nxt.append((acc + (v,), s3))
                                else:
                                    nxt.append((acc, s2))
                    work = nxt
                for acc, s in work:
                    s = s.copy()
                    s.env = dict(st.env)        # comprehension variables do not leak
                    if self.model_lists:
                        res.append(self._alloc(T('list', *acc), s))
                    else:
                        res.append((T('list', *acc), s))
            return res
        return [(T('comp', unparse(e)), st)]

    def ev_GeneratorExp(self, e, st):
        # a generator over a LITERAL tuple / list (e.g. unpacked into two names) is evaluated like the list comprehension; anything else stays opaque
        if len(e.generators) == 1 and isinstance(e.generators[0].iter, (ast.Tuple, ast.List)) and not e.generators[0].ifs:
            return self.ev_ListComp(e, st)
        return [(T('comp', unparse(e)), st)]

    def ev_SetComp(self, e, st):
        return [(T('comp', unparse(e)), st)]

    def ev_DictComp(self, e, st):
        """{k: v for x in <concrete abstract list>}: evaluated element by element like `d = {}; for x in ..: d[k] = v` (one `setitem` event per entry, in order)."""
        if len(e.generators) == 1 and not e.generators[0].is_async and not e.generators[0].ifs:
            g = e.generators[0]
            res = []
            for itv, s0 in self.ev(g.iter, st):
                itd = self.deref(itv, s0) if hasattr(self, 'deref') else itv
                if not (is_t(itd) and itd[1] in ('list', 'tuple') and not any(is_t(x) and x[1] == 'star' for x in itd[2:])):
                    res.append((T('comp', unparse(e)), s0))
                    continue
                n, s1 = s0.fresh()
                dct = T('dictobj', C(n))
                work = [s1]
                for el in itd[2:]:
                    nxt = []
                    for s in work:
                        for s2 in self.assign_to(g.target, el, s):
                            for kv, s3 in self.ev(e.key, s2):
                                for vv, s4 in self.ev(e.value, s3):
                                    nxt.append(s4.emit('setitem', dct, unparse(e.key), vv, kv))
                    work = nxt
                for s in work:
                    s = s.copy()
                    s.env = dict(st.env)
                    res.append((dct, s))
            return res
        return [(T('comp', unparse(e)), st)]

    def ev_BinOp(self, e, st):
        out = []
        for l, s in self.ev(e.left, st):
            for r, s2 in self.ev(e.right, s):
                if is_c(l) and is_c(r) and isinstance(e.op, (ast.Add, ast.Sub, ast.Mult)) and \
                        all(isinstance(x[1], (int, float)) and not isinstance(x[1], bool) for x in (l, r)):
                    v = {ast.Add: l[1] + r[1], ast.Sub: l[1] - r[1], ast.Mult: l[1] * r[1]}[type(e.op)]
                    out.append((C(v), s2))
                elif is_c(l) and is_c(r) and isinstance(e.op, ast.Add) and isinstance(l[1], str) and isinstance(r[1], str):
                    out.append((C(l[1] + r[1]), s2))
                elif isinstance(e.op, ast.Add) and is_t(l) and is_t(r) and l[1] == r[1] and l[1] in ('list', 'tuple'):
                    out.append((T(l[1], *(l[2:] + r[2:])), s2))
                elif isinstance(e.op, ast.Mod) and is_c(l) and isinstance(l[1], str) and (
                        (is_c(r) and isinstance(r[1], (str, int))) or
                        (is_t(r) and r[1] == 'tuple' and all(is_c(x) and isinstance(x[1], (str, int)) for x in r[2:]))):
                    try:
                        out.append((C(l[1] % (r[1] if is_c(r) else tuple(x[1] for x in r[2:]))), s2))
                    except Exception:
                        out.append((T('Mod', l, r), s2))
                elif self.model_lists and isinstance(e.op, ast.Add) and (self._is_ref(l) or self._is_ref(r)):
                    # list concatenation creates a new list object
                    cl = s2.heap.get(l, l) if self._is_ref(l) else l
                    cr = s2.heap.get(r, r) if self._is_ref(r) else r
                    if is_t(cl) and is_t(cr) and cl[1] == 'list' and cr[1] == 'list':
                        ref, s3 = self._alloc(T('list', *(cl[2:] + cr[2:])), s2)
                        out.append((ref, s3))
                    else:
                        out.append((T('Add', l, r), s2))
                else:
                    out.append((T(type(e.op).__name__, l, r), s2))
        return out

    def ev_UnaryOp(self, e, st):
        if isinstance(e.op, ast.Not):
            return [(C(not b), s) for b, s in self.truth(e.operand, st)]
        out = []
        for v, s in self.ev(e.operand, st):
            if is_c(v) and isinstance(v[1], (int, float)) and not isinstance(v[1], bool) and isinstance(e.op, (ast.USub, ast.UAdd)):
                out.append((C(-v[1] if isinstance(e.op, ast.USub) else v[1]), s))
            else:
                out.append((T(type(e.op).__name__, v), s))
        return out

    def ev_BoolOp(self, e, st):
        # value semantics: `a or b` is a when a is truthy, else b ; `a and b` is a when a is falsy, else b
        is_and = isinstance(e.op, ast.And)
        out = []
        work = [st]
        for i, x in enumerate(e.values):
            last = i == len(e.values) - 1
            nxt = []
            for s in work:
                for v, s1 in self.ev(x, s):
                    if last:
                        out.append((v, s1))
                        continue
                    for b, s2 in self.truth_of(v, s1):
                        if b != is_and:          # short-circuit: value is v
                            out.append((v, s2))
                        else:
                            nxt.append(s2)
            work = nxt
        return out

    def ev_IfExp(self, e, st):
        out = []
        for b, s in self.truth(e.test, st):
            out.extend(self.ev(e.body if b else e.orelse, s))
        return out

    def ev_Compare(self, e, st):
        return [(C(b), s) for b, s in self.truth(e, st)]

    def ev_NamedExpr(self, e, st):
        out = []
        for v, s in self.ev(e.value, st):
            s = s.copy()
            s.env[e.target.id] = v
            out.append((v, s))
        return out

    def ev_Starred(self, e, st):
        return [(T('star', v), s) for v, s in self.ev(e.value, st)]

    def ev_Yield(self, e, st):
        if e.value is None:
            return [(C(None), st.emit('yield', C(None)))]
        return [(C(None), s.emit('yield', v)) for v, s in self.ev(e.value, st)]

    def ev_Await(self, e, st):
        return self.ev(e.value, st)

    # ---- calls
    def ev_Call(self, e, st):
        # evaluate receiver (for methods) and arguments left to right
        acc = [((), st)]
        for a in e.args:
            nxt = []
            for vals, s in acc:
                for v, s2 in self.ev(a, s):
                    nxt.append((vals + (v,), s2))
            acc = nxt
        out = []
        # f(*concrete_tuple): the items are the positional arguments
        spliced = []
        for vals, s in acc:
            flat = ()
            for v in vals:
                inner = v[2] if is_t(v) and v[1] == 'star' and len(v) == 3 else None
                c_ = s.heap.get(inner, inner) if inner is not None and self._is_ref(inner) else inner
                if inner is not None and is_t(c_) and c_[1] in ('list', 'tuple') and not any(is_t(y) and y[1] == 'star' for y in c_[2:]):
                    flat += tuple(c_[2:])
                else:
                    flat += (v,)
            spliced.append((flat, s))
        acc = spliced
        for vals, s in acc:
            kacc = [({}, s)]
            for k in e.keywords:
                nxt = []
                for kw, s1 in kacc:
                    for v, s2 in self.ev(k.value, s1):
                        d = dict(kw)
                        d[k.arg if k.arg else '**'] = v
                        nxt.append((d, s2))
                kacc = nxt
            for kw, s1 in kacc:
                out.extend(self._call(e, vals, kw, s1))
        return out

    def _call(self, e, args, kwargs, st):
        """-> list[(value, state)]; raising outcomes are delivered through self._raised."""
        name = dotted(e.func) or unparse(e.func)
        recv = None
        states = [(None, st)]
        if isinstance(e.func, ast.Attribute):
            ch = attr_chain(e.func)
            if ch and ch[0] not in st.env:
                states = [(None, st)]       # module-level function (np.x.y, logger.debug, ...): no receiver object
            else:
                states = self.ev(e.func.value, st)
        res = []
        for recv, s in states:
            r = self.on_call(e, name, args, kwargs, s)
            if r is None and recv is not None:
                r = self.on_method(e, name, recv, args, kwargs, s)
            if r is None:
                r = self.default_call(e, name, recv, args, kwargs, s)
            for kind, val, s2 in r:
                if kind == 'raise':
                    self._pending.append(('raise', val, s2))
                else:
                    res.append((val, s2))
        return res

    def on_method(self, call, name, recv, args, kwargs, st):
        return None

    def default_call(self, call, name, recv, args, kwargs, st):
        if recv is None and isinstance(call.func, ast.Name):
            for ci, cname, fs in self._namedtuple_classes():
                if cname == call.func.id and not any(is_t(a_) and a_[1] == 'star' for a_ in args) and len(args) + len(kwargs) == len(fs) and set(kwargs) <= set(fs[len(args):]):
                    return [('ok', T('tuple', *(list(args) + [kwargs[f_] for f_ in fs[len(args):]])), st)]
        if recv is not None and isinstance(call.func, ast.Attribute) and len(self.fi_stack) < 12:
            nt = self._namedtuple_of(recv)
            if nt is not None and nt[0] is not None:
                m_ = self.repo.lookup_method(nt[0], call.func.attr)
                if m_ is not None and m_.cls is nt[0]:
                    return self.call_function(m_, args, kwargs, st, recv=recv)
        if is_t(recv) and recv[1] == 'call' and recv[2] == 'super' and self.fi_stack and self.fi_stack[-1].self_name:
            recv = st.env.get(self.fi_stack[-1].self_name, recv)       # super().m(..) runs on the same object
        # inline repo callees when allowed
        if self.fi_stack and st.depth < self.inline_depth:
            tg = self.repo.resolve_call(self.fi_stack[-1], call, virtual=False)
            tg = [t for t in tg if t.node in self.inline]
            if len(tg) == 1:
                return self.call_function(tg[0], args, kwargs, st, recv=recv)
        # 'text {} {}'.format(const, const) folds like % formatting
        if isinstance(call.func, ast.Attribute) and call.func.attr == 'format' and is_c(recv) and isinstance(recv[1], str) and not kwargs and \
                all(is_c(a_) and isinstance(a_[1], (str, int)) for a_ in args):
            try:
                return [('ok', C(recv[1].format(*[a_[1] for a_ in args])), st)]
            except Exception:
                pass
        # a method called through a local that holds the walked object (`reader = self; reader.m()`) is the method of that object
        if isinstance(call.func, ast.Attribute) and self.fi_stack and self.fi_stack[-1].cls is not None and st.depth < self.inline_depth and \
                is_t(recv) and (recv[1] in ('self', 'obj') or recv == st.env.get(self.fi_stack[-1].self_name or '')):
            m_ = self.repo.lookup_method(self.fi_stack[-1].cls, call.func.attr)
            if m_ is not None and m_.node in self.inline:
                return self.call_function(m_, args, kwargs, st, recv=recv)
        # a local bound to a lambda is applied; functools.reduce over a concrete abstract list is folded
        if isinstance(call.func, ast.Name) and not kwargs:
            r_ = self.apply_lambda(st.env.get(call.func.id), args, st)
            if r_ is not None:
                return [('ok', v, s_) for v, s_ in r_]
        if name in ('reduce', 'functools.reduce') and recv is None and len(args) in (2, 3) and not kwargs:
            seq = self.deref(args[1], st) if hasattr(self, 'deref') else args[1]
            if is_t(seq) and seq[1] in ('list', 'tuple') and not any(is_t(x) and x[1] == 'star' for x in seq[2:]):
                items = list(seq[2:])
                if len(args) == 3:
                    work = [(args[2], st)]
                elif items:
                    work, items = [(items[0], st)], items[1:]
                else:
                    work = None
                ok_ = work is not None
                for el in items:
                    nxt = []
                    for acc, s_ in work:
                        r_ = self.apply_lambda(args[0], [acc, el], s_)
                        if r_ is None:
                            ok_ = False
                            break
                        nxt.extend(r_)
                    if not ok_:
                        break
                    work = nxt
                if ok_:
                    return [('ok', v, s_) for v, s_ in work]
        # sorted(<concrete abstract list>, key=<lambda giving a truth value>): a stable two-way partition (False keys first), forking on the truth of every key
        if name == 'sorted' and recv is None and len(args) == 1 and set(kwargs) <= {'key', 'reverse'} and 'key' in kwargs and \
                (kwargs.get('reverse') in (None, C(False))):
            seq = self.deref(args[0], st)
            if is_t(seq) and seq[1] in ('list', 'tuple') and not any(is_t(x) and x[1] == 'star' for x in seq[2:]) and len(seq) - 2 <= 4:
                work = [((), st)]
                ok_ = True
                for el in seq[2:]:
                    nxt = []
                    for keys_, s_ in work:
                        r_ = self.apply_lambda(kwargs['key'], [el], s_)
                        if r_ is None:
                            ok_ = False
                            break
                        for kv, s2 in r_:
                            if is_t(kv) and kv[1] == 'call' and kv[2] == 'bool' and len(kv) == 5:
                                kv = kv[4]
                            elif not is_c(kv):
                                ok_ = False
                                break
                            for b_, s3 in self.truth_of(kv, s2):
                                nxt.append((keys_ + (b_,), s3))
                        if not ok_:
                            break
                    if not ok_:
                        break
                    work = nxt
                if ok_:
                    outs_ = []
                    for keys_, s_ in work:
                        items = [el for el, b_ in zip(seq[2:], keys_) if not b_] + [el for el, b_ in zip(seq[2:], keys_) if b_]
                        if self.model_lists:
                            ref, s2 = self._alloc(T('list', *items), s_)
                            outs_.append(('ok', ref, s2))
                        else:
                            outs_.append(('ok', T('list', *items), s_))
                    return outs_
        # helpers that did not exist when the rules were written (extracted by a refactoring) are transparent: inline them
        if self.fi_stack and self.auto_inline and st.depth < self.inline_depth + 3:
            try:
                tg = self.repo.resolve_call(self.fi_stack[-1], call, virtual=False)
            except Exception:
                tg = []
            tg = [t for t in tg if t.where not in known_functions()]
            # a helper that calls itself (retry-once recursion) is followed through two nested activations; beyond that the call is opaque and says so
            if len(tg) == 1 and sum(1 for f in self.fi_stack if f.node is tg[0].node) >= 3:
                n, st = st.fresh()
                return [('ok', T('call', name, C(n)), st.emit('recursion-cut', tg[0].name))]
            if len(tg) == 1 and len(list(ast.walk(tg[0].node))) < 600:
                return self.call_function(tg[0], args, kwargs, st, recv=recv)
        out = []
        if self.model_lists:
            r = self._list_call(call, name, recv, args, kwargs, st)
            if r is not None:
                return r
        if name == 'range' and recv is None and args and all(is_c(a) and isinstance(a[1], int) for a in args) and not kwargs:
            return [('ok', T('list', *[C(i) for i in range(*[a[1] for a in args])]), st)]
        n, st = st.fresh()
        term = T('call', name, C(n), *(((recv,) if recv is not None else ()) + tuple(args) + tuple(T('kw', k, v) for k, v in sorted(kwargs.items()))))
        if name in self.may_raise:
            out.append(('raise', self.may_raise[name], st.emit('raise-in', name)))
        out.append(('ok', term, st))
        return out

    def _list_call(self, call, name, recv, args, kwargs, st):
        if recv is None and name == 'tuple' and len(args) <= 1 and not kwargs:
            # tuple(x) of a concrete sequence: an immutable VALUE holding the same items (no aliasing with x)
            if not args:
                return [('ok', T('tuple'), st)]
            c = self.deref(args[0], st)
            if is_t(c) and c[1] in ('list', 'tuple') and not any(is_t(y) and y[1] == 'star' for y in c[2:]):
                return [('ok', T('tuple', *c[2:]), st)]
        if recv is None and name == 'list' and len(args) <= 1:
            if not args:
                ref, s = self._alloc(T('list'), st)
                return [('ok', ref, s)]
            c = self.deref(args[0], st)
            if is_t(c) and c[1] in ('list', 'tuple'):
                ref, s = self._alloc(T('list', *c[2:]), st)
                return [('ok', ref, s)]
        if recv is None and name in ('copy.copy', 'copy') and len(args) == 1 and is_t(args[0]) and args[0][1] in ('self', 'obj', 'param'):
            n, s = st.fresh()
            clone = T('obj', C(n), args[0])
            for (k, v) in list(s.heap.items()):
                if isinstance(k, tuple) and len(k) == 2 and k[0] == args[0]:
                    s.heap[(clone, k[1])] = v          # shallow: references are shared
            return [('ok', clone, s.emit('clone', clone, args[0]))]
        if recv is None and name in ('copy.deepcopy', 'deepcopy') and len(args) == 1 and is_t(args[0]) and args[0][1] in ('self', 'obj', 'param'):
            n, s = st.fresh()
            clone = T('obj', C(n), args[0])
            for (k, v) in list(s.heap.items()):
                if isinstance(k, tuple) and len(k) == 2 and k[0] == args[0]:
                    if self._is_ref(v):
                        v, s = self._alloc(s.heap.get(v), s)
                    s.heap[(clone, k[1])] = v
            return [('ok', clone, s.emit('clone', clone, args[0]))]
        if recv is not None and self._is_ref(recv) and isinstance(call.func, ast.Attribute):
            m = call.func.attr
            c = st.heap.get(recv)
            if is_t(c) and c[1] == 'list':
                s = st.copy()
                if m == 'append' and len(args) == 1:
                    s.heap[recv] = T('list', *(c[2:] + (args[0],)))
                    return [('ok', C(None), s.emit('mutate', recv, 'append'))]
                if m == 'extend' and len(args) == 1:
                    a = self.deref(args[0], s)
                    if is_t(a) and a[1] in ('list', 'tuple'):
                        s.heap[recv] = T('list', *(c[2:] + a[2:]))
                    else:
                        s.heap[recv] = T('list', *(c[2:] + (T('star', a),)))
                    return [('ok', C(None), s.emit('mutate', recv, 'extend'))]
                if m == 'insert' and len(args) == 2 and is_c(args[0]) and isinstance(args[0][1], int):
                    items = list(c[2:])
                    items.insert(args[0][1], args[1])
                    s.heap[recv] = T('list', *items)
                    return [('ok', C(None), s.emit('mutate', recv, 'insert'))]
                if m == 'copy' and not args:
                    ref, s2 = self._alloc(c, st)
                    return [('ok', ref, s2)]
                if m in ('pop', 'remove', 'clear', 'sort', 'reverse'):
                    s.heap[recv] = T('list', T('star', T('mutated', c, m)))
                    return [('ok', T('call', name, C(0)), s.emit('mutate', recv, m))]
        return None

    def call_function(self, fi, args, kwargs, st, recv=None):
        """Inline a repo function: -> list[(kind, value, state)] with kind in ok/raise."""
        if self.fi_stack and fi.yields() and not getattr(self, 'inline_generators', False):
            # calling a generator function runs nothing: its body runs lazily, interleaved with the consumer. That is not modelled; the opaque result and the
            # 'generator' event tell the obligations that what follows is not a faithful trace
            n, st = st.fresh()
            return [('ok', T('generator', fi.name, C(n)), st.emit('generator', fi.name))]
        env = {}
        params = list(fi.params)
        argv = list(args)
        if fi.is_method and recv is not None:
            env[params[0]] = recv
            params = params[1:]
        elif fi.is_method and recv is None and params:
            # bound method alias (emit = _EVENT.emit): receiver is the module-level instance
            env[params[0]] = T('instance', fi.cls.name)
            params = params[1:]
        flat = []
        for a in argv:
            flat.append(a)
        for p, a in zip(params, flat):
            env[p] = a
        extra = flat[len(params):]
        if fi.vararg:
            env[fi.vararg] = T('tuple', *extra)
        for k, v in kwargs.items():
            if k in params or k in fi.kwonly:
                env[k] = v
        if fi.kwarg:
            env[fi.kwarg] = T('kwargs', *(T('kw', k, v) for k, v in sorted(kwargs.items()) if k not in params and k not in fi.kwonly and k != '**'))
        outs = []
        for p, d in fi.defaults().items():
            if p not in env:
                dv = self.ev(d, State())
                env[p] = dv[0][0]
        for p in params + fi.kwonly:
            env.setdefault(p, T('param?', p))
        for k_, v_ in (getattr(fi, 'closure', None) or {}).items():
            env.setdefault(k_, C(v_))           # free variables bound by a method factory (`__add__ = _make_op('add')`)
        s0 = State(env, st.heap, st.facts, st.trace, st.depth + 1, st.seq)
        self.fi_stack.append(fi)
        try:
            for kind, val, s in self.block(fi.body(), s0):
                back = State(st.env, s.heap, s.facts, s.trace, st.depth, s.seq)
                if kind == 'fall':
                    outs.append(('ok', C(None), back))
                elif kind == 'return':
                    outs.append(('ok', val, back))
                elif kind == 'raise':
                    outs.append(('raise', val, back))
        finally:
            self.fi_stack.pop()
        return outs

    # ------------------------------------------------------------------ truth
    def truth(self, e, st):
        """-> list[(bool, state)] for a condition expression."""
        if isinstance(e, ast.BoolOp):
            is_and = isinstance(e.op, ast.And)
            acc = [(None, st)]
            for v in e.values:
                nxt = []
                for b, s in acc:
                    if b is not None and b == (not is_and):
                        nxt.append((b, s))      # short-circuit
                        continue
                    nxt.extend(self.truth(v, s))
                acc = nxt
            return acc
        if isinstance(e, ast.UnaryOp) and isinstance(e.op, ast.Not):
            return [(not b, s) for b, s in self.truth(e.operand, st)]
        if isinstance(e, ast.Compare):
            return self._compare(e, st)
        out = []
        for v, s in self.ev(e, st):
            out.extend(self.truth_of(v, s))
        return out

    def truth_of(self, v, st):
        if is_c(v):
            return [(bool(v[1]), st)]
        if is_t(v) and v[1] == 'call' and v[2] == 'bool' and len(v) == 5:
            return self.truth_of(v[4], st)           # bool(x) is true exactly when x is
        key = ('truth', v)
        if key in st.facts:
            return [(st.facts[key], st)]
        opts = self.on_fork(key, st)
        if opts is None:
            opts = [True, False]
        return [(b, st.with_fact(key, b)) for b in opts]

    def _compare(self, e, st):
        # chained comparisons: a < b < c
        lefts = self.ev(e.left, st)
        work = [(True, lv, s) for lv, s in lefts]
        for op, right in zip(e.ops, e.comparators):
            nxt = []
            for ok, lv, s in work:
                if not ok:
                    nxt.append((False, lv, s))
                    continue
                for rv, s2 in self.ev(right, s):
                    for b, s3 in self.cmp(op, lv, rv, s2):
                        nxt.append((b, rv, s3))
            work = nxt
        return [(ok, s) for ok, _, s in work]

    def cmp(self, op, l, r, st):
        """-> list[(bool, state)]"""
        name = type(op).__name__
        if name in ('Is', 'IsNot'):
            # the result of a repo function that returns a value on every path is not None
            for a_, b_ in ((l, r), (r, l)):
                if a_ == C(None) and is_t(b_) and b_[1] == 'call' and isinstance(b_[2], str) and self._never_none(b_[2]):
                    return [(name == 'IsNot', st)]
            if is_c(l) and is_c(r):
                b = (l[1] is r[1]) if not (isinstance(l[1], (int, str)) and not isinstance(l[1], bool)) else (l[1] == r[1] and type(l[1]) is type(r[1]))
                return [(b if name == 'Is' else not b, st)]
            key = ('is', l, r) if repr(l) <= repr(r) else ('is', r, l)
            return self._fork(key, st, flip=(name == 'IsNot'))
        if name in ('Eq', 'NotEq'):
            if is_c(l) and is_c(r):
                b = l[1] == r[1]
                return [(b if name == 'Eq' else not b, st)]
            if l == r:
                return [(name == 'Eq', st)]
            return self._tri(l, r, st, {'Eq': ('=',), 'NotEq': ('<', '>')}[name])
        if name in ('Lt', 'LtE', 'Gt', 'GtE'):
            if is_c(l) and is_c(r):
                try:
                    b = {'Lt': l[1] < r[1], 'LtE': l[1] <= r[1], 'Gt': l[1] > r[1], 'GtE': l[1] >= r[1]}[name]
                    return [(b, st)]
                except TypeError:
                    pass
            if l == r:
                return [(name in ('LtE', 'GtE'), st)]
            return self._tri(l, r, st, {'Lt': ('<',), 'LtE': ('<', '='), 'Gt': ('>',), 'GtE': ('>', '=')}[name])
        if name in ('In', 'NotIn'):
            key = ('in', l, r)
            return self._fork(key, st, flip=(name == 'NotIn'))
        return self._fork(('cmp', name, l, r), st)

    def _fork(self, key, st, flip=False):
        if key in st.facts:
            b = st.facts[key]
            return [((not b) if flip else b, st)]
        opts = self.on_fork(key, st)
        if opts is None:
            opts = [True, False]
        return [((not b) if flip else b, st.with_fact(key, b)) for b in opts]

    def _never_none(self, fname):
        """True when `fname` resolves (from the function being walked) to a repo function that ends with `return <expr>` and has no bare / None return and no yield."""
        if fname in NP_VALUE_FUNCS:
            return True
        cache = self.__dict__.setdefault('_nn_cache', {})
        key = (self.fi_stack[-1].module.rel if self.fi_stack else None, fname)
        if key in cache:
            return cache[key]
        res = False
        try:
            r_ = self.repo.resolve_name(self.fi_stack[-1].module, fname.split('.')[-1]) if self.fi_stack and '.' not in fname else None
            fi_ = r_[1] if r_ is not None and r_[0] in ('func', 'bound') else None
            if fi_ is not None:
                body = fi_.body()
                rets = fi_.returns()
                res = bool(body) and isinstance(body[-1], ast.Return) and bool(rets) and not fi_.yields() and \
                    all(r0.value is not None and not (isinstance(r0.value, ast.Constant) and r0.value.value is None) for r0 in rets)
        except Exception:
            res = False
        cache[key] = res
        return res

    def _tri(self, l, r, st, true_rels):
        """Trichotomy fact on the ordered pair (l, r)."""
        swap = repr(l) > repr(r)
        a, b = (r, l) if swap else (l, r)
        key = ('rel', a, b)
        mirror = {'<': '>', '>': '<', '=': '='}
        if key in st.facts:
            rel = st.facts[key]
            rel = mirror[rel] if swap else rel
            return [(rel in true_rels, st)]
        opts = self.on_fork(key, st)
        if opts is None:
            opts = ['<', '=', '>']
        out = []
        for rel in opts:
            seen = mirror[rel] if swap else rel
            out.append((seen in true_rels, st.with_fact(key, rel)))
        return out

    def rel(self, st, l, r):
        """The recorded relation between two terms on this path ('<','=','>') or None."""
        if l == r:
            return '='
        if is_c(l) and is_c(r):
            try:
                return '<' if l[1] < r[1] else ('=' if l[1] == r[1] else '>')
            except TypeError:
                return None
        swap = repr(l) > repr(r)
        a, b = (r, l) if swap else (l, r)
        rel = st.facts.get(('rel', a, b))
        if rel is None:
            return None
        return {'<': '>', '>': '<', '=': '='}[rel] if swap else rel

    # ------------------------------------------------------------------ statements -> list[(kind, value, state)]
    def block(self, stmts, st):
        work = [st]
        done = []
        for s in stmts:
            nxt = []
            for cur in work:
                for kind, val, s2 in self.stmt(s, cur):
                    if kind == 'fall':
                        nxt.append(s2)
                    else:
                        done.append((kind, val, s2))
            work = nxt
            self.n_paths = max(self.n_paths, len(work) + len(done))
            if len(work) + len(done) > MAX_PATHS:
                raise PathLimit('more than %d paths' % MAX_PATHS)
            if not work:
                break
        return done + [('fall', None, w) for w in work]

    def _with_pending(self, fn):
        """Run fn() collecting raise outcomes produced inside expression evaluation."""
        saved = getattr(self, '_pending', None)
        self._pending = []
        try:
            res = fn()
            raised = self._pending
        finally:
            self._pending = saved
        return res, raised

    def stmt(self, s, st):
        m = getattr(self, 'st_' + type(s).__name__, None)
        if m is None:
            return [('fall', None, st)]
        res, raised = self._with_pending(lambda: m(s, st))
        return list(res) + [('raise', v, s2) for _, v, s2 in raised]

    def st_Pass(self, s, st):
        return [('fall', None, st)]
    st_Import = st_ImportFrom = st_Global = st_Nonlocal = st_FunctionDef = st_ClassDef = st_Pass

    def st_Expr(self, s, st):
        return [('fall', None, s2) for _, s2 in self.ev(s.value, st)]

    def assign_to(self, target, value, st):
        """-> list[state]"""
        if isinstance(target, ast.Name):
            s = st.copy()
            s.env[target.id] = value
            return [s]
        if isinstance(target, (ast.Tuple, ast.List)):
            states = [st]
            for i, t in enumerate(target.elts):
                if is_t(value) and value[1] in ('tuple', 'list') and len(value) - 2 == len(target.elts):
                    item = value[2 + i]
                else:
                    item = T('item', value, C(i))
                states = [s2 for s in states for s2 in self.assign_to(t, item, s)]
            return states
        if isinstance(target, ast.Attribute):
            out = []
            for base, s in self.ev(target.value, st):
                r = self.on_attr_store(target, base, value, s)
                if r is not None:
                    out.extend(r)
                    continue
                s = s.copy()
                s.heap[(base, target.attr)] = value
                out.append(s.emit('store', base, target.attr, value))
            return out
        if isinstance(target, ast.Subscript):
            out = []
            for base, s in self.ev(target.value, st):
                if isinstance(target.slice, ast.Slice):
                    out.append(s.emit('setitem', base, unparse(target.slice), value, None))
                else:
                    for k, s2 in self.ev(target.slice, s):
                        out.append(s2.emit('setitem', base, unparse(target.slice), value, k))
            return out
        return [st]

    def st_Assign(self, s, st):
        out = []
        for v, s1 in self.ev(s.value, st):
            states = [s1]
            for t in s.targets:
                states = [s3 for s2 in states for s3 in self.assign_to(t, v, s2)]
            out.extend(('fall', None, x) for x in states)
        return out

    def st_AnnAssign(self, s, st):
        if s.value is None:
            return [('fall', None, st)]
        return [('fall', None, s3) for v, s1 in self.ev(s.value, st) for s3 in self.assign_to(s.target, v, s1)]

    def st_AugAssign(self, s, st):
        if self.model_lists and isinstance(s.op, ast.Add):
            # `x += [..]` on a list extends the SAME object
            out = []
            handled = True
            for cur, s1 in self.ev(_as_load(s.target), st):
                if not self._is_ref(cur):
                    handled = False
                    break
                for v, s2 in self.ev(s.value, s1):
                    c, a = s2.heap.get(cur), self.deref(v, s2)
                    s3 = s2.copy()
                    if is_t(c) and c[1] == 'list' and is_t(a) and a[1] in ('list', 'tuple'):
                        s3.heap[cur] = T('list', *(c[2:] + a[2:]))
                    else:
                        s3.heap[cur] = T('list', T('star', T('mutated', c, a)))
                    out.append(('fall', None, s3.emit('mutate', cur, 'iadd')))
            if handled:
                return out
        load = ast.copy_location(ast.BinOp(left=_as_load(s.target), op=s.op, right=s.value), s)
        return [('fall', None, s3) for v, s1 in self.ev(load, st) for s3 in self.assign_to(s.target, v, s1)]

    def st_Return(self, s, st):
        if s.value is None:
            return [('return', C(None), st)]
        return [('return', v, s1) for v, s1 in self.ev(s.value, st)]

    def st_Raise(self, s, st):
        if s.exc is None:
            return [('raise', 'reraise', st)]
        f = s.exc.func if isinstance(s.exc, ast.Call) else s.exc
        return [('raise', dotted(f) or unparse(f), st.emit('raise', dotted(f) or unparse(f)))]

    def st_Assert(self, s, st):
        # assertions are assumed to hold (the properties quantify over well-formed inputs)
        return [('fall', None, s1) for b, s1 in self.truth(s.test, st) if b]

    def st_Delete(self, s, st):
        return [('fall', None, st)]

    def st_Break(self, s, st):
        return [('break', None, st)]

    def st_Continue(self, s, st):
        return [('continue', None, st)]

    def st_If(self, s, st):
        out = []
        for b, s1 in self.truth(s.test, st):
            out.extend(self.block(s.body if b else s.orelse, s1))
        return out

    def st_With(self, s, st):
        states = [st]
        for it in s.items:
            nxt = []
            for cur in states:
                for v, s1 in self.ev(it.context_expr, cur):
                    if it.optional_vars is not None:
                        nxt.extend(self.assign_to(it.optional_vars, T('enter', v), s1))
                    else:
                        nxt.append(s1)
            states = nxt
        out = []
        for cur in states:
            out.extend(self.block(s.body, cur))
        return out

    def loop_items(self, s, itv, st):
        """Abstract elements for iteration k of a for loop: default = opaque items."""
        return None

    def st_For(self, s, st):
        w = _iter_sentinel_loop(s)
        if w is not None:
            return self.st_While(w, st)
        fused = self._fuse_generator_loop(s)
        if fused is not None:
            return self.block(fused, st)
        out = []
        for itv, s0 in self.ev(s.iter, st):
            if getattr(self, 'range_loops', False):
                r = self._for_value(s, itv, s0)
                if r is not None:
                    out.extend(r)
                    continue
            items = self.for_elements(s, itv, s0)
            out.extend(self._loop(s, s0, items))
        return out

    def _fuse_generator_loop(self, s):
        """`for T in gen(args): BODY` over a generator function of the same module / class = the generator's body run in place, BODY executed at each
        `yield v` with T = v (the lazy interleaving of producer and consumer, exactly). Only for shapes where that is exact: statement-level yields,
        no return in the generator, no break / continue / else on the consumer loop, plain argument passing. None otherwise (the generator stays opaque)."""
        import copy as _copy
        if s.orelse or not self.fi_stack or len(self.fi_stack) > 10:
            return None
        cur = self.fi_stack[-1]
        call = s.iter
        if isinstance(call, ast.Name):
            call = cur.unique_def(call.id)
        if not isinstance(call, ast.Call) or any(isinstance(a, ast.Starred) for a in call.args) or any(k.arg is None for k in call.keywords):
            return None
        try:
            tg = self.repo.resolve_call(cur, call, virtual=False)
        except Exception:
            return None
        if len(tg) != 1 or not tg[0].yields():
            return None
        g = tg[0]
        if g.module is not cur.module or g.cls is not cur.cls or any(f is g for f in self.fi_stack) or g.vararg or g.kwarg:
            return None
        gbody = [x for x in g.body() if not (isinstance(x, ast.Expr) and isinstance(x.value, ast.Constant) and isinstance(x.value.value, str))]
        stmt_yields = {id(x.value) for b in gbody for x in ast.walk(b) if isinstance(x, ast.Expr) and isinstance(x.value, ast.Yield)}
        for b in gbody:
            for x in ast.walk(b):
                if isinstance(x, (ast.YieldFrom, ast.Return, ast.FunctionDef, ast.AsyncFunctionDef, ast.Lambda, ast.Global, ast.Nonlocal, ast.Try, ast.With)):
                    return None
                if isinstance(x, ast.Yield) and id(x) not in stmt_yields:
                    return None

        def own_jumps(stmts):
            for x in stmts:
                if isinstance(x, (ast.Break, ast.Continue)):
                    return True
                if isinstance(x, (ast.For, ast.While, ast.FunctionDef)):
                    continue
                for f_ in ('body', 'orelse', 'finalbody'):
                    if own_jumps(getattr(x, f_, []) or []):
                        return True
                for h in getattr(x, 'handlers', []) or []:
                    if own_jumps(h.body):
                        return True
            return False
        if own_jumps(s.body):
            return None
        params = list(g.params)
        binds = []
        if g.is_method:
            if not (isinstance(call.func, ast.Attribute) and params):
                return None
            binds.append((params[0], call.func.value))
            params = params[1:]
        if len(call.args) > len(params):
            return None
        for p, a in zip(params, call.args):
            binds.append((p, a))
        bound = {p for p, _ in binds}
        for k in call.keywords:
            if k.arg in bound or k.arg not in params + g.kwonly:
                return None
            binds.append((k.arg, k.value))
            bound.add(k.arg)
        for p, d in g.defaults().items():
            if p not in bound:
                binds.append((p, d))
                bound.add(p)
        if any(p not in bound for p in params + g.kwonly):
            return None
        local = set(g.params) | set(g.kwonly) | {x.id for b in gbody for x in ast.walk(b) if isinstance(x, ast.Name) and isinstance(x.ctx, ast.Store)}
        pre = '_g%d_' % s.lineno

        class Ren(ast.NodeTransformer):
            def visit_Name(self, n):
                return ast.copy_location(ast.Name(id=pre + n.id, ctx=n.ctx), n) if n.id in local else n
        consumer = s

        class Fuse(ast.NodeTransformer):
            def visit_Expr(self, n):
                if isinstance(n.value, ast.Yield):
                    v = n.value.value if n.value.value is not None else ast.Constant(value=None)
                    return [ast.copy_location(ast.Assign(targets=[_copy.deepcopy(consumer.target)], value=v), n)] + [_copy.deepcopy(x) for x in consumer.body]
                return n
        out = [ast.copy_location(ast.Assign(targets=[ast.Name(id=pre + p, ctx=ast.Store())], value=_copy.deepcopy(a)), s) for p, a in binds]
        for b in gbody:
            nb = Ren().visit(_copy.deepcopy(b))
            r = Fuse().visit(nb)
            out.extend(r if isinstance(r, list) else [r])
        for x in out:
            ast.fix_missing_locations(x)
        return out

    range_loops = False     # opt-in: chain(...) and range(a, b, step) iterated on terms (used by the symbolic walkers)

    def _for_value(self, s, itv, st):
        """chain(p1, p2, ..) = the loops over its parts one after the other (loops without break / else only);
        range(a, b, step) with a provably positive step = a counting while-loop on terms, its exit test recorded as a path fact. None = not of these forms."""
        if self._is_ref(itv):
            itv = st.heap.get(itv, itv)
        if not (is_t(itv) and itv[1] == 'call' and isinstance(itv[2], str)):
            return None
        name = itv[2].split('.')[-1]
        # layout of an uninterpreted call: ('t', 'call', name, <path-local sequence number>, arg, ...)
        if name == 'chain' and len(itv) > 4:
            own_break = any(isinstance(n, ast.Break) for b in s.body for n in ast.walk(b))
            if s.orelse or own_break:
                return None
            out, states = [], [st]
            for part in itv[4:]:
                nxt = []
                for cur in states:
                    p = cur.heap.get(part, part) if self._is_ref(part) else part
                    r = self._for_value(s, p, cur)
                    if r is None:
                        r = self._loop(s, cur, self.for_elements(s, p, cur))
                    for kind, val, s2 in r:
                        (nxt if kind == 'fall' else out).append(s2 if kind == 'fall' else (kind, val, s2))
                states = nxt
            out.extend(('fall', None, x) for x in states)
            return out
        if name == 'range' and 5 <= len(itv) <= 7:
            args = list(itv[4:])
            lo, hi, step = (C(0), args[0], C(1)) if len(args) == 1 else (args[0], args[1], args[2] if len(args) == 3 else C(1))
            pos = [b for b, _ in self.cmp(ast.Gt(), step, C(0), st)]
            if pos != [True]:
                return None
            out, work = [], [(st, lo, 0)]
            while work:
                cur, r, n = work.pop()
                for b, s1 in self.cmp(ast.Lt(), r, hi, cur):
                    if not b:
                        out.extend(self.block(s.orelse, s1) if s.orelse else [('fall', None, s1)])
                        continue
                    if n >= self.unroll + 1:
                        self.truncated = getattr(self, 'truncated', 0) + 1
                        continue
                    for s2 in self.assign_to(s.target, r, s1):
                        for kind, val, s3 in self.block(s.body, s2):
                            if kind in ('fall', 'continue'):
                                work.append((s3, T('Add', r, step), n + 1))
                            elif kind == 'break':
                                out.append(('fall', None, s3))
                            else:
                                out.append((kind, val, s3))
            return out
        return None

    def for_elements(self, s, itv, st):
        """-> list of candidate element sequences (each a list of abstract elements)."""
        if self._is_ref(itv):
            itv = st.heap.get(itv, itv)
        if is_t(itv) and itv[1] in ('tuple', 'list'):
            return [list(itv[2:])]
        if is_t(itv) and itv[1] == 'call' and itv[2] in ('zip', 'enumerate', 'reversed', 'list', 'tuple', 'iter') and len(itv) > 4:
            # zip / enumerate / reversed of concrete sequences: the concrete sequence of tuples
            seqs = []
            for a in itv[4:]:
                a = st.heap.get(a, a) if self._is_ref(a) else a
                if not (is_t(a) and a[1] in ('tuple', 'list') and not any(is_t(x) and x[1] == 'star' for x in a[2:])):
                    seqs = None
                    break
                seqs.append(list(a[2:]))
            if seqs is not None:
                if itv[2] == 'zip':
                    return [[T('tuple', *row) for row in zip(*seqs)]]
                if itv[2] == 'enumerate' and len(seqs) == 1:
                    return [[T('tuple', C(i), x) for i, x in enumerate(seqs[0])]]
                if itv[2] == 'reversed' and len(seqs) == 1:
                    return [list(reversed(seqs[0]))]
                if itv[2] in ('list', 'tuple', 'iter') and len(seqs) == 1:
                    return [seqs[0]]
        return [[T('elem', itv, C(k)) for k in range(n)] for n in range(self.unroll + 1)]

    def _loop(self, s, st, sequences):
        out = []
        for seq in sequences:
            work = [st.emit('loop-enter', len(seq))] if getattr(self, 'trace_loops', False) else [st]
            brk = []
            for el in seq:
                nxt = []
                for cur in work:
                    for s1 in self.assign_to(s.target, el, cur):
                        for kind, val, s2 in self.block(s.body, s1):
                            if kind in ('fall', 'continue'):
                                nxt.append(s2)
                            elif kind == 'break':
                                brk.append(s2)
                            else:
                                out.append((kind, val, s2))
                work = nxt
            for cur in work:
                out.extend(self.block(s.orelse, cur) if s.orelse else [('fall', None, cur)])
            out.extend(('fall', None, b) for b in brk)
        return out

    def st_While(self, s, st):
        out = []
        work = [(st, 0)]
        while work:
            cur, n = work.pop()
            for b, s1 in self.truth(s.test, cur):
                if not b:
                    out.extend(self.block(s.orelse, s1) if s.orelse else [('fall', None, s1)])
                    continue
                if n >= self.unroll + 1:
                    # bound reached: abandon this path (recorded, not reported)
                    self.truncated = getattr(self, 'truncated', 0) + 1
                    continue
                for kind, val, s2 in self.block(s.body, s1.emit('iter', n) if getattr(self, 'trace_loops', False) else s1):
                    if kind in ('fall', 'continue'):
                        work.append((s2, n + 1))
                    elif kind == 'break':
                        out.append(('fall', None, s2))
                    else:
                        out.append((kind, val, s2))
        return out

    def handler_matches(self, h, exc):
        if h.type is None:
            return True
        names = [dotted(t) or unparse(t) for t in (h.type.elts if isinstance(h.type, ast.Tuple) else [h.type])]
        names = [n.split('.')[-1] for n in names]
        exc = str(exc).split('.')[-1]
        if 'BaseException' in names or 'Exception' in names:
            return True
        if exc in names:
            return True
        for n in names:
            if exc in EXC_CHILDREN.get(n, ()):
                return True
        if exc == 'Exception' or exc == 'reraise':
            return None      # unknown exception class: may or may not match
        return False

    def st_Try(self, s, st):
        outcomes = []
        for kind, val, s1 in self.block(s.body, st):
            if kind == 'raise':
                handled = False
                for h in s.handlers:
                    m = self.handler_matches(h, val)
                    if m is None:
                        # may match: fork
                        s2 = s1.copy()
                        if h.name:
                            s2.env[h.name] = T('exc', val)
                        outcomes.extend(self.block(h.body, s2.emit('caught', val)))
                        continue
                    if m:
                        s2 = s1.copy()
                        if h.name:
                            s2.env[h.name] = T('exc', val)
                        outcomes.extend(self.block(h.body, s2.emit('caught', val)))
                        handled = True
                        break
                if not handled:
                    outcomes.append((kind, val, s1))
            elif kind == 'fall' and s.orelse:
                outcomes.extend(self.block(s.orelse, s1))
            else:
                outcomes.append((kind, val, s1))
        if not s.finalbody:
            return outcomes
        final = []
        for kind, val, s1 in outcomes:
            for k2, v2, s2 in self.block(s.finalbody, s1):
                if k2 == 'fall':
                    final.append((kind, val, s2))
                else:
                    final.append((k2, v2, s2))     # finally overrides the pending outcome
        return final

    # ------------------------------------------------------------------ entry
    def run(self, fi, env=None, heap=None, facts=None):
        self.fi_stack = [fi]
        self._pending = []
        e = {}
        for p in fi.params + fi.kwonly:
            e[p] = T('param', p)
        if fi.vararg:
            e[fi.vararg] = T('param*', fi.vararg)
        if fi.kwarg:
            e[fi.kwarg] = T('param**', fi.kwarg)
        for k_, v_ in (getattr(fi, 'closure', None) or {}).items():
            e[k_] = C(v_)
        e.update(env or {})
        st = State(e, heap, facts)
        res = self.block(fi.body(), st)
        raised = self._pending
        self.fi_stack = []
        out = []
        for kind, val, s in res:
            if kind == 'fall':
                out.append(('return', C(None), s))
            else:
                out.append((kind, val, s))
        out.extend(('raise', v, s) for _, v, s in raised)
        return out


def _as_load(t):
    import copy
    t2 = copy.deepcopy(t)
    for n in ast.walk(t2):
        if hasattr(n, 'ctx'):
            n.ctx = ast.Load()
    return t2


EXC_CHILDREN = {
    'OSError': ('IOError', 'FileNotFoundError', 'PermissionError', 'ConnectionError', 'HTTPError', 'RequestException', 'Timeout'),
    'IOError': ('OSError', 'FileNotFoundError', 'PermissionError', 'ConnectionError', 'HTTPError', 'RequestException', 'Timeout'),
    'RequestException': ('HTTPError', 'ConnectionError', 'Timeout'),
    'LookupError': ('KeyError', 'IndexError'),
    'ArithmeticError': ('ZeroDivisionError', 'OverflowError'),
    'ValueError': ('UnicodeDecodeError', 'LinAlgError'),
}
