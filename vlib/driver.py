"""Runs the obligation table of one property, the embedded sensitivity variants, and the verdict."""
import importlib
import json
import random
import time

from . import front, report


def evaluate(mod, prop, repo, tier='quick', seed=0):
    ctx = report.Ctx(prop, repo, tier, seed)
    mod.run(ctx)
    return ctx


def apply_edit(repo_root, rel, old, new, base_overrides=None):
    """In-memory single-site edit of a repo module; None when `old` does not occur exactly once."""
    src = (base_overrides or {}).get(rel)
    if src is None:
        p = front.Path(repo_root) / rel
        if not p.exists():
            return None
        src = p.read_text()
    if src.count(old) != 1:
        return None
    return src.replace(old, new)


def sensitivity(mod, prop, root, tier, seed):
    """Checker self-test on in-memory variants of the CURRENT tree (never changes the exit code):
    breaking variants must raise the named rule, equivalent variants must raise nothing new."""
    try:
        st = importlib.import_module('selftest.%s' % prop)
    except ImportError:
        return None
    rnd = random.Random(seed)
    breaking = list(getattr(st, 'BREAKING', []))
    equiv = list(getattr(st, 'EQUIVALENT', []))
    if tier == 'quick':
        rnd.shuffle(breaking)
        rnd.shuffle(equiv)
        breaking, equiv = breaking[:3], equiv[:2]
    res = {'breaking_total': 0, 'breaking_detected': 0, 'breaking_inapplicable': 0, 'missed': [],
           'equivalent_total': 0, 'equivalent_silent': 0, 'equivalent_inapplicable': 0, 'noisy': []}
    base = None

    def viol_keys(ctx):
        return {(o.rule, o.where, o.construct) for o in ctx.obs if o.status == 'violated'}
    for name, rel, old, new, rules in breaking:
        src = apply_edit(root, rel, old, new)
        if src is None:
            res['breaking_inapplicable'] += 1
            continue
        res['breaking_total'] += 1
        try:
            if base is None:
                base = viol_keys(evaluate(mod, prop, front.Repo(root), tier, seed))
            ctx = evaluate(mod, prop, front.Repo(root, {rel: src}), tier, seed)
            new_v = viol_keys(ctx) - base
            hit = any(r == k[0] or k[0].startswith(r) for k in new_v for r in rules) if rules else bool(new_v)
        except front.AnchorMissing:
            hit = True   # reported as ANALYSIS-ERROR, never a silent pass
        if hit:
            res['breaking_detected'] += 1
        else:
            res['missed'].append(name)
    for name, rel, old, new in equiv:
        src = apply_edit(root, rel, old, new)
        if src is None:
            res['equivalent_inapplicable'] += 1
            continue
        res['equivalent_total'] += 1
        try:
            if base is None:
                base = viol_keys(evaluate(mod, prop, front.Repo(root), tier, seed))
            ctx = evaluate(mod, prop, front.Repo(root, {rel: src}), tier, seed)
            new_v = {k[:2] for k in viol_keys(ctx)} - {k[:2] for k in base}
            ok = not new_v
        except front.AnchorMissing:
            ok = False
        if ok:
            res['equivalent_silent'] += 1
        else:
            res['noisy'].append(name)
    return res


def run_property(prop, tier, seed, root, replay=None):
    mod = importlib.import_module('obligations.%s' % prop)
    repo = front.Repo(root)
    ctx = evaluate(mod, prop, repo, tier, seed)
    if replay:
        want = json.loads(open(replay).read())
        hit = [o for o in ctx.obs if o.rule == want.get('rule') and o.where == want.get('where')]
        print('replay of %s %s at %s' % (prop, want.get('rule'), want.get('where')))
        for o in hit:
            print('  [%s] line %d construct `%s`\n      %s' % (o.status, o.line, o.construct, o.detail))
        bad = [o for o in hit if o.status == 'violated' and o.construct == want.get('construct')]
        if bad:
            print('VIOLATION property=%s replay=%s' % (prop, replay))
            return 1
        print('the recorded violation does not reproduce on the current tree')
        return 0
    extra = {}
    cg, stats = repo.callgraph()
    extra['front'] = {'modules': len(repo.modules), 'functions': sum(1 for _ in repo.all_funcs()),
                      'call_sites': stats['calls'], 'resolved_to_repo': stats['resolved'],
                      'external': stats['external'], 'unresolved': stats['unresolved']}
    if getattr(mod, 'SENSITIVITY', True):
        t = time.time()
        s = sensitivity(mod, prop, root, tier, seed)
        if s is not None:
            s['wall_s'] = round(time.time() - t, 2)
            extra['sensitivity_sweep'] = s
            if s['missed']:
                ctx.note('sensitivity: breaking variants not detected: %s' % ', '.join(s['missed']))
            if s['noisy']:
                ctx.note('sensitivity: equivalent variants that raised a report: %s' % ', '.join(s['noisy']))
    return report.finish(ctx, mod.FLOOR, mod.EXPLANATION, mod.TRUSTED, mod.ASSUMPTIONS, extra=extra)
