"""Runs the obligation table of one property, the embedded sensitivity variants, and the verdict."""
import importlib
import json
import random
import time

from . import front, report


def common_rules(ctx, prop):
    """Rules that hold for the mechanism of every property. M0: no function the property's obligations were recorded on (nor a helper extracted from it) answers from
    storage that outlives the call under a key that ignores one of its arguments - a later call that differs only in that argument would get the first call's result."""
    from . import q
    if prop == 'C09':          # C09 states the same rule per summary (U1..U4)
        return
    seen, stale, n = set(), [], 0
    for w in sorted(ctx.analysed['functions']):
        rel, _, qn = w.partition(':')
        m = ctx.repo.modules.get(rel)
        fi = m.funcs.get(qn) if m is not None else None
        if fi is None:
            continue
        for f_ in ctx.repo.transparent_closure(fi):
            if id(f_.node) in seen:
                continue
            seen.add(id(f_.node))
            n += 1
            try:
                sites = q.memo_sites(f_)
            except Exception:
                continue
            for cache, key, ret, missing in sites:
                if missing:
                    stale.append((f_, ret, cache, key, missing))
    for f_, ret, cache, key, missing in stale[:3]:
        ctx.violated(prop + '.M0', f_, ret, '%s returns a result memoised in `%s` under the key `%s`, which ignores the argument(s) %s: a later call that differs only there is answered with '
                     'the first call\'s result' % (f_.name, cache, front.unparse(key), ', '.join(missing)))
    if not stale and n:
        ctx.holds(prop + '.M0', sorted(ctx.analysed['functions'])[0], 'no consulted function memoises its result under a key that ignores one of its arguments (%d functions)' % n, 'memoisation')


def evaluate(mod, prop, repo, tier='quick', seed=0):
    ctx = report.Ctx(prop, repo, tier, seed)
    mod.run(ctx)
    if not getattr(ctx, 'outside_model', None):
        common_rules(ctx, prop)
    return ctx


def apply_edit(repo_root, rel, old, new, base_overrides=None):
    """In-memory single-site edit of a repo module; None when `old` does not occur exactly once."""
    src = (base_overrides or {}).get(rel)
    if src is None:
        p = front.Path(repo_root) / rel
        if not p.exists():
            return None
        src = p.read_text()
    if src.count(old) != 1:
        return None
    return src.replace(old, new)


_W = {}


def _viol_keys(ctx):
    return {(o.rule, o.where, o.construct) for o in ctx.obs if o.status == 'violated'}


def _eval_variant(task):
    """One in-memory variant (runs in a forked worker; reads the globals prepared by the parent)."""
    kind, name, overrides, rules = task
    mod, prop, root, tier, seed, base = _W['mod'], _W['prop'], _W['root'], _W['tier'], _W['seed'], _W['base']
    try:
        ctx = evaluate(mod, prop, front.Repo(root, overrides), tier, seed)
        if kind == 'refactoring':
            new_v = _viol_keys(ctx) - base
            decided = len([o for o in ctx.obs if o.status in ('holds', 'violated')])
            if decided < mod.FLOOR and not getattr(ctx, 'outside_model', None):
                return kind, name, 'noisy', ['FLOOR: only %d obligations decided (< %d)' % (decided, mod.FLOOR)]
            return kind, name, 'silent' if not new_v else 'noisy', sorted({k[0] for k in new_v})
        if kind == 'equivalent':
            new_v = {k[:2] for k in _viol_keys(ctx)} - {k[:2] for k in base}
            if _W.get('floor') is not None:
                decided = len([o for o in ctx.obs if o.status in ('holds', 'violated')])
                if decided < _W['floor'] and not getattr(ctx, 'outside_model', None):
                    return kind, name, 'noisy', ['FLOOR: only %d obligations decided (< %d): the check would exit 2 (analysis error) on this rewrite' % (decided, _W['floor'])]
            if _W.get('details'):
                return kind, name, 'silent' if not new_v else 'noisy', sorted('%s: %s' % (o.rule, o.detail[:170]) for o in ctx.obs if o.status == 'violated' and (o.rule, o.where) in new_v)
            return kind, name, 'silent' if not new_v else 'noisy', sorted(k[0] for k in new_v)
        new_v = _viol_keys(ctx) - base
        hit = any(r == k[0] or k[0].startswith(r) for k in new_v for r in rules) if rules else bool(new_v)
        return kind, name, 'detected' if hit else 'missed', sorted({k[0] for k in new_v})
    except front.AnchorMissing:
        # reported as ANALYSIS-ERROR by the check, never a silent pass: fine for a breaking variant, noise for an equivalent one
        return kind, name, 'detected' if kind not in ('equivalent', 'refactoring') else 'noisy', ['ANALYSIS-ERROR (anchor missing)']
    except Exception as e:      # a crash of the analysis on a variant is a checker defect, recorded as such
        return kind, name, 'missed' if kind not in ('equivalent', 'refactoring') else 'noisy', ['CRASH %s: %s' % (type(e).__name__, e)]


def _run_tasks(tasks, jobs):
    if jobs <= 1 or len(tasks) <= 1:
        return [_eval_variant(t) for t in tasks]
    import multiprocessing
    try:
        with multiprocessing.get_context('fork').Pool(min(jobs, len(tasks))) as pool:
            return pool.map(_eval_variant, tasks, chunksize=1)
    except Exception:
        return [_eval_variant(t) for t in tasks]


def apply_patch(repo_root, patch_text):
    """Applies a `git diff` to in-memory copies of the files it touches. Returns {rel: new source}, or None when a hunk
    does not apply to the current source (context or removed lines differ)."""
    import re
    files, cur = {}, None
    for line in patch_text.splitlines():
        if line.startswith('+++ '):
            cur = line[4:].strip()
            cur = cur[2:] if cur.startswith('b/') else cur
            files[cur] = []
        elif line.startswith('@@') and cur is not None:
            m = re.match(r'@@ -(\d+)(?:,(\d+))? \+(\d+)(?:,(\d+))? @@', line)
            if not m:
                return None
            files[cur].append([int(m.group(1)), []])
        elif cur is not None and files[cur] and line[:1] in (' ', '+', '-') and not line.startswith('--- '):
            files[cur][-1][1].append(line)
        elif cur is not None and files[cur] and line == '':
            files[cur][-1][1].append(' ')
    out = {}
    for rel, hunks in files.items():
        p = front.Path(repo_root) / rel
        if not p.exists() or rel == '/dev/null':
            return None
        lines = p.read_text().split('\n')
        shift = 0
        for start, body in hunks:
            oldl = [l[1:] for l in body if l[:1] in (' ', '-')]
            newl = [l[1:] for l in body if l[:1] in (' ', '+')]
            while oldl and newl and oldl[-1] == '' and newl[-1] == '' and body[-1] == ' ':
                oldl.pop(); newl.pop(); body = body[:-1]
            pos = None
            for delta in sorted(range(-40, 41), key=abs):
                i0 = start - 1 + shift + delta
                if i0 >= 0 and lines[i0:i0 + len(oldl)] == oldl:
                    pos = i0
                    break
            if pos is None:
                return None
            lines[pos:pos + len(oldl)] = newl
            shift += len(newl) - len(oldl)
        out[rel] = '\n'.join(lines)
    return out or None


def sensitivity(mod, prop, root, tier, seed, jobs=None):
    """Checker self-test on in-memory variants of the CURRENT tree (never changes the exit code):
    breaking variants must raise the named rule, equivalent variants must raise nothing new; in the thorough tier the
    stored seeded patches that target (or are reported by) this property are re-applied in memory as well."""
    import os
    try:
        st = importlib.import_module('selftest.%s' % prop)
    except ImportError:
        return None
    rnd = random.Random(seed)
    breaking = list(getattr(st, 'BREAKING', []))
    equiv = list(getattr(st, 'EQUIVALENT', []))
    if tier == 'quick':
        rnd.shuffle(breaking)
        rnd.shuffle(equiv)
        breaking, equiv = breaking[:3], equiv[:2]
    res = {'breaking_total': 0, 'breaking_detected': 0, 'breaking_inapplicable': 0, 'missed': [],
           'equivalent_total': 0, 'equivalent_silent': 0, 'equivalent_inapplicable': 0, 'noisy': []}
    tasks = []
    for name, rel, old, new, rules in breaking:
        src = apply_edit(root, rel, old, new)
        if src is None:
            res['breaking_inapplicable'] += 1
        else:
            tasks.append(('breaking', name, {rel: src}, list(rules)))
    for name, rel, old, new in equiv:
        src = apply_edit(root, rel, old, new)
        if src is None:
            res['equivalent_inapplicable'] += 1
        else:
            tasks.append(('equivalent', name, {rel: src}, []))
    if tier == 'thorough':
        res.update({'seeded_total': 0, 'seeded_reported': 0, 'seeded_inapplicable': 0, 'seeded_missed': []})
        here = front.Path(__file__).resolve().parent.parent
        for d in sorted((here / 'seeded').glob('*')):
            try:
                meta = json.loads((d / 'meta.json').read_text())
                patch = (d / 'patch.diff').read_text()
            except Exception:
                continue
            if meta.get('breaks_property') != prop and prop not in (meta.get('also_breaks') or []):
                continue
            ov = apply_patch(root, patch)
            if ov is None:
                res['seeded_inapplicable'] += 1
            else:
                tasks.append(('seeded', d.name, ov, []))
        # stored behaviour-preserving refactorings (equivalent/): the check of the refactored property, and of every property that raised an alarm on it at first run, must stay silent
        res.update({'refactoring_total': 0, 'refactoring_silent': 0, 'refactoring_inapplicable': 0, 'refactoring_noisy': []})
        for d in sorted((here / 'equivalent').glob('*')):
            try:
                meta = json.loads((d / 'meta.json').read_text())
                patch = (d / 'patch.diff').read_text()
            except Exception:
                continue
            concerned = {meta.get('refactors_code_of')} | set((meta.get('first_run') or {}).get('checks_that_raised_an_alarm', {})) | set(meta.get('checks_that_raised_an_alarm', {}))
            if prop not in concerned or meta.get('superseded'):
                continue
            ov = apply_patch(root, patch)
            if ov is None:
                res['refactoring_inapplicable'] += 1
            else:
                tasks.append(('refactoring', d.name, ov, []))
    if not tasks:
        return res
    _W.update(mod=mod, prop=prop, root=root, tier=tier, seed=seed, base=_viol_keys(evaluate(mod, prop, front.Repo(root), tier, seed)), floor=None, details=False)
    jobs = jobs or int(os.environ.get('VERIF_JOBS', '0') or 0) or min(16, os.cpu_count() or 1)
    for kind, name, status, fired in _run_tasks(tasks, jobs):
        if kind == 'breaking':
            res['breaking_total'] += 1
            if status == 'detected':
                res['breaking_detected'] += 1
            else:
                res['missed'].append(name)
        elif kind == 'equivalent':
            res['equivalent_total'] += 1
            if status == 'silent':
                res['equivalent_silent'] += 1
            else:
                res['noisy'].append('%s %s' % (name, fired))
        elif kind == 'refactoring':
            res['refactoring_total'] += 1
            if status == 'silent':
                res['refactoring_silent'] += 1
            else:
                res['refactoring_noisy'].append('%s %s' % (name, fired))
        else:
            res['seeded_total'] += 1
            if status == 'detected':
                res['seeded_reported'] += 1
            else:
                res['seeded_missed'].append(name)
    return res


def run_property(prop, tier, seed, root, replay=None):
    mod = importlib.import_module('obligations.%s' % prop)
    repo = front.Repo(root)
    ctx = evaluate(mod, prop, repo, tier, seed)
    if replay:
        want = json.loads(open(replay).read())
        hit = [o for o in ctx.obs if o.rule == want.get('rule') and o.where == want.get('where')]
        print('replay of %s %s at %s' % (prop, want.get('rule'), want.get('where')))
        for o in hit:
            print('  [%s] line %d construct `%s`\n      %s' % (o.status, o.line, o.construct, o.detail))
        bad = [o for o in hit if o.status == 'violated' and o.construct == want.get('construct')]
        if bad:
            print('VIOLATION property=%s replay=%s' % (prop, replay))
            return 1
        print('the recorded violation does not reproduce on the current tree')
        return 0
    extra = {}
    cg, stats = repo.callgraph()
    extra['front'] = {'modules': len(repo.modules), 'functions': sum(1 for _ in repo.all_funcs()),
                      'call_sites': stats['calls'], 'resolved_to_repo': stats['resolved'],
                      'external': stats['external'], 'unresolved': stats['unresolved']}
    if getattr(mod, 'SENSITIVITY', True):
        t = time.time()
        s = sensitivity(mod, prop, root, tier, seed)
        if s is not None:
            s['wall_s'] = round(time.time() - t, 2)
            extra['sensitivity_sweep'] = s
            if s['missed']:
                ctx.note('sensitivity: breaking variants not detected: %s' % ', '.join(s['missed']))
            if s['noisy']:
                ctx.note('sensitivity: equivalent variants that raised a report: %s' % ', '.join(s['noisy']))
            if s.get('seeded_missed'):
                ctx.note('sensitivity: stored seeded changes no longer reported: %s' % ', '.join(s['seeded_missed']))
            if s.get('refactoring_noisy'):
                ctx.note('sensitivity: stored behaviour-preserving refactorings that raise a report: %s' % ', '.join(s['refactoring_noisy']))
        if tier == 'thorough':
            # false-alarm hunt: behaviour-preserving rewrites of every function the check consults must not raise a report
            from . import eqfuzz
            t = time.time()
            r = eqfuzz.sweep(mod, prop, root)
            extra['rewrite_sweep'] = {'rewrites': r['rewrites'], 'by_kind': r['by_kind'], 'raising_a_report': ['%s %s' % (n, f) for n, f in r['noisy']], 'wall_s': round(time.time() - t, 2)}
            if r['noisy']:
                ctx.note('rewrite sweep: behaviour-preserving rewrites that raised a report: %s' % ', '.join(n for n, f in r['noisy'][:5]))
    return report.finish(ctx, mod.FLOOR, mod.EXPLANATION, mod.TRUSTED, mod.ASSUMPTIONS, extra=extra, rules=getattr(mod, 'RULES', None))
