"""Verdict protocol, obligation records, known findings, evidence writer (DESIGN §1)."""
import ast
import hashlib
import json
import os
import sys
import time
from pathlib import Path

from .front import AnchorMissing, AnalysisError, unparse

VERIF = Path(__file__).resolve().parent.parent
KNOWN = VERIF / 'known_findings.json'
EVID = VERIF / 'evidence'


class Ob:
    __slots__ = ('rule', 'where', 'status', 'detail', 'construct', 'line', 'nontrivial', 'file')

    def __init__(self, rule, where, status, detail, construct='', line=0, nontrivial=True):
        self.rule, self.where, self.status, self.detail = rule, where, status, detail
        self.construct, self.line, self.nontrivial = construct, line, nontrivial

    def key(self):
        return (self.rule, self.where, self.construct)

    def as_dict(self):
        return {'rule': self.rule, 'where': self.where, 'line': self.line, 'status': self.status,
                'construct': self.construct, 'detail': self.detail}


class Ctx:
    """Collects obligation results for one property."""

    def __init__(self, prop, repo, tier='quick', seed=0):
        self.prop, self.repo, self.tier, self.seed = prop, repo, tier, seed
        self.obs = []
        self.notes = []
        self.analysed = {'functions': set(), 'call_sites': 0, 'paths': 0}
        self.t0 = time.time()

    def bound(self, quick, thorough):
        """Analysis bound (loop unrolling, abstract registry size, ...) of the current tier."""
        return thorough if self.tier == 'thorough' else quick

    def part(self, rule, fn, *args):
        """Runs one obligation group; a path explosion inside it makes THAT rule undecided instead of aborting the property."""
        from . import proto
        try:
            return fn(self, *args)
        except proto.PathLimit as e:
            self.undecided(rule, getattr(fn, '__name__', 'obligation group'), 'the path-sensitive walk exceeded its path budget (%s): nothing is concluded for this group' % e)
            return None

    # ---- recording
    def _text(self, node):
        if node is None:
            return ''
        if isinstance(node, str):
            return node
        return unparse(node)

    def _where(self, where):
        return where.where if hasattr(where, 'where') else str(where)

    def touch(self, fi):
        if hasattr(fi, 'where'):
            self.analysed['functions'].add(fi.where)

    def holds(self, rule, where, detail, node=None, nontrivial=True):
        self.touch(where)
        self.obs.append(Ob(rule, self._where(where), 'holds', detail, self._text(node),
                           getattr(node, 'lineno', 0) if node is not None and not isinstance(node, str) else 0, nontrivial))
        return True

    def violated(self, rule, where, node, detail):
        self.touch(where)
        self.obs.append(Ob(rule, self._where(where), 'violated', detail, self._text(node),
                           getattr(node, 'lineno', 0) if node is not None and not isinstance(node, str) else 0))
        return False

    def undecided(self, rule, where, detail, node=None):
        self.touch(where)
        self.obs.append(Ob(rule, self._where(where), 'undecided', detail, self._text(node),
                           getattr(node, 'lineno', 0) if node is not None and not isinstance(node, str) else 0))
        return None

    def check(self, cond, rule, where, node, ok_detail, bad_detail=None, absent=None, value=None):
        """Two-valued obligation: for conditions whose FALSE branch is as trustworthy as the true one (comparisons of fully typed / closed-form results, table
        agreement). With absent=False the caller says that a false condition only means "the form I know was not found": undecided instead of violated.
        Structural rules use tri()."""
        if cond:
            return self.holds(rule, where, ok_detail, node)
        if absent is False:
            return self.undecided(rule, where, 'not located: %s (%s)' % (ok_detail, bad_detail or ''))
        if value is not None and _has_unknown(value):
            # the compared abstract value is only partly typed (an axis or the element is unknown): the comparison failed for lack of information, not by a conflict
            return self.undecided(rule, where, 'not fully typed: %s (%s)' % (ok_detail, bad_detail or ''))
        return self.violated(rule, where, node, bad_detail or ('NOT: ' + ok_detail))

    def tri(self, good, bad, rule, where, node, ok_detail, bad_detail, und_detail=None):
        """Three-valued obligation: `good` (the recognised correct form) -> holds; `bad` (a recognised wrong form) -> violated; neither -> undecided.
        Structural rules use this instead of check(): not finding the form one knows is not a violation."""
        if good:
            return self.holds(rule, where, ok_detail, node)
        if bad:
            return self.violated(rule, where, node, bad_detail)
        return self.undecided(rule, where, und_detail or ('form not recognised: ' + ok_detail), node if not isinstance(node, str) else None)

    def note(self, s):
        self.notes.append(s)


def _has_unknown(v, depth=0):
    """An abstract value of the shape engine with an unknown axis / element (duck-typed: no import of the engine here)."""
    if depth > 4 or v is None:
        return v is None
    name = type(v).__name__
    if name == 'Unknown':
        return True
    if name == 'Arr':
        return any(type(a).__name__ == 'Unknown' or a is None for a in v.axes) or _has_unknown(v.elem, depth + 1)
    if name == 'Q':
        return bool(getattr(v, 'poly', False))
    if name == 'Ix':
        return type(v.space).__name__ == 'Unknown'
    if name == 'Rec':
        return any(_has_unknown(x, depth + 1) for x in v.fields.values())
    if name in ('NoneT',):
        return True
    return False


def load_known():
    if not KNOWN.exists():
        return {'open': [], 'fixed': []}
    return json.loads(KNOWN.read_text())


def match_known(prop, ob, known):
    for k in known.get('open', []):
        if k['property'] == prop and k['rule'] == ob.rule and k['where'] == ob.where and \
                k['construct'] == ob.construct:
            return k
    return None


def finish(ctx, floor, explanation, trusted_base, assumptions, level='other', extra=None, rules=None):
    """Print the verdict, write evidence (and replay files), return the exit code."""
    known = load_known()
    prop = ctx.prop
    viol, knownhits = [], []
    for ob in ctx.obs:
        if ob.status == 'violated':
            k = match_known(prop, ob, known)
            (knownhits if k else viol).append((ob, k))
    silent = sorted(set(rules or ()) - {o.rule for o in ctx.obs})
    for r_ in silent:
        # a group that reports nothing must not pass silently: it is recorded as undecided (and counts against the floor like any undecided obligation)
        ctx.obs.append(Ob(r_, prop, 'undecided', 'the obligation group produced no obligation at all on this tree (its anchor construct was not found)', '', 0))
    n_dec = sum(1 for o in ctx.obs if o.status in ('holds', 'violated'))
    n_hold = sum(1 for o in ctx.obs if o.status == 'holds')
    n_und = sum(1 for o in ctx.obs if o.status == 'undecided')
    distinct = len({o.key() for o in ctx.obs if o.nontrivial and o.status != 'undecided'})
    lines = []

    def print(x):      # verdict lines are emitted after the evidence file is written
        lines.append(x)
    print('%s: %d obligations evaluated, %d hold, %d undecided, %d violated (%d listed as known findings)'
          % (prop, len(ctx.obs), n_hold, n_und, len(viol) + len(knownhits), len(knownhits)))
    for o in ctx.obs:
        if o.status == 'undecided':
            print('  undecided %s %s: %s' % (o.rule, o.where, o.detail))
    for n in ctx.notes:
        print('  NOTE: %s' % n)
    code = 0
    if getattr(ctx, 'outside_model', None):
        # the mechanism was re-represented in a form the model of this property does not cover: the groups concerned are undecided, nothing is claimed, and
        # the floor (a guard against a silently vanished analysis) does not apply - the reason is printed and recorded
        print('  NOTE: outside the model of this check: %s' % ctx.outside_model)
        floor = 0
    if n_dec < floor:
        print('ANALYSIS-ERROR: property=%s only %d obligations decided, floor is %d (anchors moved or '
              'constructs left the transfer tables)' % (prop, n_dec, floor))
        code = 2
    for ob, k in knownhits:
        print('KNOWN-FINDING: property=%s %s %s: %s [%s]' % (prop, ob.rule, ob.where, ob.detail, k.get('id', '')))
    replay_dir = EVID / 'replay'
    for ob, _ in viol:
        replay_dir.mkdir(parents=True, exist_ok=True)
        h = hashlib.sha1(repr(ob.key()).encode()).hexdigest()[:10]
        rp = replay_dir / ('%s-%s.json' % (prop, h))
        rp.write_text(json.dumps(dict(ob.as_dict(), property=prop), indent=1))
        print('VIOLATION property=%s replay=%s' % (prop, rp))
        print('  rule %s at %s line %d' % (ob.rule, ob.where, ob.line))
        print('  construct: %s' % ob.construct)
        print('  %s' % ob.detail)
        if code == 0:
            code = 1
    if viol and code == 2:
        code = 1
    samples = [o.as_dict() for o in ctx.obs][:400]
    # a seeded rotation so that the samples shown vary with VERIF_SEED but cover every rule
    if samples:
        r = ctx.seed % len(samples)
        samples = samples[r:] + samples[:r]
    cov = {
        'explanation': explanation,
        'obligations': len(ctx.obs),
        'discharged': n_hold,
        'undecided': n_und,
        'violated_known': len(knownhits),
        'violated_new': len(viol),
        'evaluations': len(ctx.obs),
        'distinct_nontrivial': distinct,
        'rule': 'one evaluation = one obligation instance (rule x construct of /repo); non-trivial = it '
                'consulted at least one construct of the current /repo source and was decided; distinct by '
                '(rule, module:qualname, normalised construct text)',
        'samples': samples[:60],
        'functions_analysed': sorted(ctx.analysed['functions']),
        'paths_enumerated': ctx.analysed['paths'],
        'call_sites_consulted': ctx.analysed['call_sites'],
        'floor_decided': floor,
        'checker_cmd': '/venv/bin/python bin/check %s --tier %s' % (prop, ctx.tier),
        'trusted_base': trusted_base,
        'exhaustive': False,
        'notes': ctx.notes,
    }
    if extra:
        cov.update(extra)
    ev = {
        'property_id': prop, 'tier': ctx.tier, 'seed': ctx.seed, 'level': level,
        'coverage': cov, 'assumptions': assumptions, 'wall_s': round(time.time() - ctx.t0, 3),
        'violations': len(viol),
    }
    EVID.mkdir(exist_ok=True)
    (EVID / ('%s.json' % prop)).write_text(json.dumps(ev, indent=1, default=str))
    try:
        sys.stdout.write('\n'.join(lines) + '\n')
        sys.stdout.flush()
    except BrokenPipeError:
        pass
    return code
