"""pat: structural patterns with metavariables over Python syntax trees.

Rules that used to compare the TEXT of a construct with a literal were tied to the spelling of the current source: renaming a local
variable, returning through a temporary or writing `b > a` for `a < b` made them report. A pattern is Python source in which

    V_xxx    is a metavariable for a LOCAL NAME   (binds the identifier; the same metavariable must bind the same identifier)
    E_xxx    is a metavariable for any EXPRESSION (bound by structure; reuse demands a structurally equal expression)
    ANY      matches any expression, binds nothing
    REST     as the last positional argument of a call matches any remaining arguments and keywords

and everything else is literal (parameters, attribute names, called functions, constants). Matching is modulo
  * commutativity of + * & | ^ == != and of the operands of `and` / `or`,
  * the orientation of < <= > >=  (`a < b` matches `b > a`),
  * unary plus, redundant `None` slice bounds / steps, keyword-argument order,
  * single-definition local temporaries when `expand=True` (the construct is expanded with FuncInfo.expand first).
Bindings accumulate in the Pat object, so several patterns over one function share their local names.
"""
import ast

COMMUTATIVE = (ast.Add, ast.Mult, ast.BitAnd, ast.BitOr, ast.BitXor)
FLIP = {ast.Lt: ast.Gt, ast.Gt: ast.Lt, ast.LtE: ast.GtE, ast.GtE: ast.LtE, ast.Eq: ast.Eq, ast.NotEq: ast.NotEq}
_CACHE = {}


def _parse(src, mode):
    key = (src, mode)
    if key not in _CACHE:
        t = ast.parse(src.strip(), mode='eval' if mode == 'expr' else 'exec')
        _CACHE[key] = t.body if mode == 'expr' else t.body[0]
    return _CACHE[key]


def _strip(n):
    while isinstance(n, ast.UnaryOp) and isinstance(n.op, ast.UAdd):
        n = n.operand
    return n


def _is_none(n):
    return n is None or (isinstance(n, ast.Constant) and n.value is None)


class Pat:
    def __init__(self, fi=None, binds=None):
        self.fi = fi
        self.b = dict(binds or {})

    # ------------------------------------------------------------------ public
    def m(self, pattern, node, expand=False, stmt=False):
        """True when `node` matches `pattern` (bindings are committed only on success)."""
        if node is None:
            return False
        p = _parse(pattern, 'stmt' if stmt else 'expr')
        if expand and self.fi is not None and isinstance(node, ast.expr):
            node = self.fi.expand(node)
        elif expand and self.fi is not None and isinstance(node, (ast.Assign, ast.AugAssign)):
            # statement: expand the right-hand side and the index expressions of subscripted targets (local aliases such as
            # `pos = self.model.channel_positions` become transparent); the assigned names themselves are left alone
            import copy as _copy
            new = _copy.copy(node)
            new.value = self.fi.expand(node.value)
            tg = node.targets if isinstance(node, ast.Assign) else [node.target]
            ntg = []
            for t_ in tg:
                if isinstance(t_, ast.Subscript):
                    t2 = _copy.copy(t_)
                    t2.slice = self.fi.expand(t_.slice)
                    ntg.append(t2)
                else:
                    ntg.append(t_)
            if isinstance(node, ast.Assign):
                new.targets = ntg
            else:
                new.target = ntg[0]
            node = new
        trial = dict(self.b)
        if self._m(p, node, trial):
            self.b = trial
            return True
        return False

    def any(self, patterns, node, expand=False, stmt=False):
        return any(self.m(p, node, expand=expand, stmt=stmt) for p in patterns)

    def find(self, pattern, nodes, expand=False, stmt=False):
        """First node of `nodes` matching the pattern (bindings committed), else None."""
        for n in nodes:
            if self.m(pattern, n, expand=expand, stmt=stmt):
                return n
        return None

    def find_any(self, patterns, nodes, expand=False, stmt=False):
        for n in nodes:
            for p in patterns:
                if self.m(p, n, expand=expand, stmt=stmt):
                    return n
        return None

    def stmts(self, pattern, within=None):
        """All statements of the function (or of the subtree `within`) matching a statement pattern; bindings of the first match are kept."""
        out = []
        root = within if within is not None else self.fi.node
        for n in ast.walk(root):
            if isinstance(n, ast.stmt) and n is not root:
                trial = dict(self.b)
                if self._m(_parse(pattern, 'stmt'), n, trial):
                    if not out:
                        self.b = trial
                    out.append(n)
        out.sort(key=lambda n: (getattr(n, 'lineno', 0), getattr(n, 'col_offset', 0)))
        return out

    def stmt(self, pattern, within=None):
        r = self.stmts(pattern, within)
        return r[0] if r else None

    def exprs(self, pattern, within=None):
        out = []
        root = within if within is not None else self.fi.node
        for n in ast.walk(root):
            if isinstance(n, ast.expr):
                trial = dict(self.b)
                if self._m(_parse(pattern, 'expr'), n, trial):
                    if not out:
                        self.b = trial
                    out.append(n)
        out.sort(key=lambda n: (getattr(n, 'lineno', 0), getattr(n, 'col_offset', 0)))
        return out

    def expr(self, pattern, within=None):
        r = self.exprs(pattern, within)
        return r[0] if r else None

    def name(self, var):
        v = self.b.get(var)
        return v if isinstance(v, str) else None

    def sub(self, text):
        """Instantiate metavariables bound to names in a source text (for messages / follow-up patterns)."""
        for k, v in sorted(self.b.items(), key=lambda kv: -len(kv[0])):
            if isinstance(v, str):
                text = text.replace(k, v)
        return text

    # ------------------------------------------------------------------ matcher
    def _m(self, p, n, b):
        if isinstance(p, ast.expr):
            p = _strip(p)
        if isinstance(n, ast.expr):
            n = _strip(n)
        if isinstance(p, ast.Name):
            pid = p.id
            if pid == 'ANY':
                return isinstance(n, ast.AST)
            if pid.startswith('V_'):
                if not isinstance(n, ast.Name):
                    return False
                if pid in b:
                    return b[pid] == n.id
                # two different metavariables never bind the same local
                if any(isinstance(v, str) and v == n.id and k.startswith('V_') for k, v in b.items()):
                    return False
                b[pid] = n.id
                return True
            if pid.startswith('E_'):
                if not isinstance(n, ast.AST):
                    return False
                d = ('E', ast.dump(n))
                if pid in b:
                    return b[pid] == d
                b[pid] = d
                return True
            return isinstance(n, ast.Name) and n.id == pid
        if n is None or p is None:
            return _is_none(p) and _is_none(n)
        if isinstance(p, ast.Constant):
            return isinstance(n, ast.Constant) and type(p.value) is type(n.value) and p.value == n.value
        if type(p) is not type(n):
            return False
        if isinstance(p, ast.BinOp):
            if type(p.op) is not type(n.op):
                return False
            if self._pair(p.left, p.right, n.left, n.right, b):
                return True
            return isinstance(p.op, COMMUTATIVE) and self._pair(p.left, p.right, n.right, n.left, b)
        if isinstance(p, ast.Compare):
            if len(p.ops) != len(n.ops) or len(p.ops) != 1:
                return len(p.ops) == len(n.ops) and all(type(x) is type(y) for x, y in zip(p.ops, n.ops)) and self._m(p.left, n.left, b) and \
                    all(self._m(x, y, b) for x, y in zip(p.comparators, n.comparators))
            po, no = type(p.ops[0]), type(n.ops[0])
            if po is no and self._pair(p.left, p.comparators[0], n.left, n.comparators[0], b):
                return True
            return po in FLIP and FLIP[po] is no and self._pair(p.left, p.comparators[0], n.comparators[0], n.left, b)
        if isinstance(p, ast.BoolOp):
            if type(p.op) is not type(n.op) or len(p.values) != len(n.values):
                return False
            return self._multiset(list(p.values), list(n.values), b)
        if isinstance(p, ast.Call):
            if not self._m(p.func, n.func, b):
                return False
            pargs, rest = list(p.args), False
            if pargs and isinstance(pargs[-1], ast.Name) and pargs[-1].id == 'REST':
                pargs, rest = pargs[:-1], True
            if len(n.args) < len(pargs) or (not rest and len(n.args) != len(pargs)):
                return False
            for x, y in zip(pargs, n.args):
                if not self._m(x, y, b):
                    return False
            pk = {k.arg: k.value for k in p.keywords}
            nk = {k.arg: k.value for k in n.keywords}
            if not rest and set(pk) != set(nk):
                return False
            for k, v in pk.items():
                if k not in nk or not self._m(v, nk[k], b):
                    return False
            return True
        if isinstance(p, ast.Slice):
            return all((_is_none(x) and _is_none(y)) or (x is not None and y is not None and self._m(x, y, b))
                       for x, y in ((p.lower, n.lower), (p.upper, n.upper), (p.step, n.step)))
        return self._generic(p, n, b)

    def _pair(self, p1, p2, n1, n2, b):
        t = dict(b)
        if self._m(p1, n1, t) and self._m(p2, n2, t):
            b.clear(); b.update(t)
            return True
        return False

    def _multiset(self, ps, ns, b):
        if not ps:
            return True
        p0 = ps[0]
        for i, n in enumerate(ns):
            t = dict(b)
            if self._m(p0, n, t) and self._multiset(ps[1:], ns[:i] + ns[i + 1:], t):
                b.clear(); b.update(t)
                return True
        return False

    def _generic(self, p, n, b):
        for f in p._fields:
            if f in ('ctx', 'type_comment', 'kind'):
                continue
            x, y = getattr(p, f, None), getattr(n, f, None)
            if isinstance(x, list):
                if not isinstance(y, list) or len(x) != len(y):
                    return False
                for a, c in zip(x, y):
                    if isinstance(a, ast.AST):
                        if not self._m(a, c, b):
                            return False
                    elif a != c:
                        return False
            elif isinstance(x, ast.AST) or isinstance(y, ast.AST):
                if not (isinstance(x, ast.AST) and isinstance(y, ast.AST) and self._m(x, y, b)):
                    if not (_is_none(x) and _is_none(y)):
                        return False
            elif x != y:
                return False
        return True


def returned(fi):
    """Return expressions of a function with single-definition temporaries expanded (so `_rv = E; return _rv` is `return E`)."""
    out = []
    for r in fi.returns():
        if r.value is not None:
            out.append((r, fi.expand(r.value)))
    return out
