"""front: the resolved program.

Parses every non-test module of /repo/phylib (never imports it) and offers
  * module / class / function tables with qualified names,
  * import tables (alias -> dotted name), module constants,
  * MRO and method / property resolution, subclass overrides,
  * call resolution (`f(..)`, `self.m(..)`, `super().m(..)`, `mod.f(..)`, imported names),
  * a call graph,
  * per-function helpers: parent map, local definition table, expansion of
    single-definition temporaries, normalised text of nodes.

Everything an obligation says about the repo goes through this file, so a vanished anchor is
reported uniformly as AnchorMissing (-> ANALYSIS-ERROR, exit 2).
"""
import ast
import builtins as _builtins
import os
import sys
from pathlib import Path

REPO = Path(os.environ.get('VERIF_REPO', '/repo'))
PKG = 'phylib'


class AnchorMissing(Exception):
    """An anchor (module, class, function, attribute) an obligation needs no longer exists."""


class AnalysisError(Exception):
    pass


def unparse(node):
    try:
        return ast.unparse(node)
    except Exception:  # pragma: no cover
        return '<%s>' % type(node).__name__


def norm(node):
    """Normalised text of a node (whitespace / quoting / parenthesis independent)."""
    return unparse(node)


def walk_local(node):
    """ast.walk that does not descend into nested function / class definitions / lambdas."""
    todo = list(ast.iter_child_nodes(node))
    while todo:
        n = todo.pop()
        yield n
        if isinstance(n, (ast.FunctionDef, ast.AsyncFunctionDef, ast.ClassDef, ast.Lambda)):
            continue
        todo.extend(ast.iter_child_nodes(n))


def walk_local_ordered(node):
    """Pre-order, source-order walk that does not enter nested defs."""
    for child in ast.iter_child_nodes(node):
        yield child
        if isinstance(child, (ast.FunctionDef, ast.AsyncFunctionDef, ast.ClassDef, ast.Lambda)):
            continue
        yield from walk_local_ordered(child)


def const_value(node, default=None):
    if isinstance(node, ast.Constant):
        return node.value
    if isinstance(node, ast.UnaryOp) and isinstance(node.op, ast.USub) and isinstance(node.operand, ast.Constant):
        try:
            return -node.operand.value
        except Exception:
            return default
    return default


def is_const(node, value):
    return isinstance(node, ast.Constant) and type(node.value) is type(value) and node.value == value


def is_none(node):
    return isinstance(node, ast.Constant) and node.value is None


def attr_chain(node):
    """`a.b.c` -> ['a','b','c'] ; None when the expression is not a pure name/attribute chain."""
    out = []
    while isinstance(node, ast.Attribute):
        out.append(node.attr)
        node = node.value
    if isinstance(node, ast.Name):
        out.append(node.id)
        return list(reversed(out))
    return None


def dotted(node):
    c = attr_chain(node)
    return '.'.join(c) if c else None


# ------------------------------------------------------------------------------------------------
class FuncInfo:
    def __init__(self, module, cls, node, outer=None):
        self.module, self.cls, self.node, self.outer = module, cls, node, outer
        self.name = node.name
        self.qualname = ('%s.%s' % (cls.name, node.name)) if cls else node.name
        if outer is not None:
            self.qualname = '%s.<locals>.%s' % (outer.qualname, node.name)
        a = node.args
        self.params = [x.arg for x in a.posonlyargs + a.args]
        self.kwonly = [x.arg for x in a.kwonlyargs]
        self.vararg = a.vararg.arg if a.vararg else None
        self.kwarg = a.kwarg.arg if a.kwarg else None
        self.decorators = [unparse(d) for d in node.decorator_list]
        self._parents = None
        self._defs = None

    @property
    def where(self):
        return '%s:%s' % (self.module.rel, self.qualname)

    def loc(self, node=None):
        return '%s:%d' % (self.module.rel, getattr(node or self.node, 'lineno', 0))

    @property
    def is_method(self):
        return self.cls is not None and 'staticmethod' not in self.decorators

    @property
    def self_name(self):
        return self.params[0] if self.is_method and self.params else None

    @property
    def real_params(self):
        return self.params[1:] if self.is_method else list(self.params)

    def defaults(self):
        a = self.node.args
        pos = a.posonlyargs + a.args
        out = {}
        for p, d in zip(pos[len(pos) - len(a.defaults):], a.defaults):
            out[p.arg] = d
        for p, d in zip(a.kwonlyargs, a.kw_defaults):
            if d is not None:
                out[p.arg] = d
        return out

    def body(self):
        b = self.node.body
        if b and isinstance(b[0], ast.Expr) and isinstance(b[0].value, ast.Constant) and isinstance(b[0].value.value, str):
            return b[1:]
        return b

    # ---- structure helpers
    def parents(self):
        if self._parents is None:
            self._parents = {}
            for n in ast.walk(self.node):
                for c in ast.iter_child_nodes(n):
                    self._parents[c] = n
        return self._parents

    def parent(self, node):
        return self.parents().get(node)

    def ancestors(self, node):
        p = self.parents()
        while node in p:
            node = p[node]
            yield node

    def stmt_of(self, node):
        for a in [node] + list(self.ancestors(node)):
            if isinstance(a, ast.stmt):
                return a
        return None

    def nodes(self, *types):
        return [n for n in walk_local_ordered(self.node) if isinstance(n, types)]

    def calls(self):
        return self.nodes(ast.Call)

    def returns(self):
        return self.nodes(ast.Return)

    def yields(self):
        return self.nodes(ast.Yield)

    # ---- local definitions (flow-insensitive; used only when a name has ONE definition)
    def defs(self):
        """name -> list of (kind, value_node, stmt). kind: 'assign','aug','for','with','unpack','param','comp','except','import'"""
        if self._defs is not None:
            return self._defs
        d = {}

        def add(name, kind, value, stmt, extra=None):
            d.setdefault(name, []).append((kind, value, stmt, extra))
        for p in self.params + self.kwonly + [x for x in (self.vararg, self.kwarg) if x]:
            add(p, 'param', None, self.node)

        def bind(t, kind, value, stmt, path=()):
            if isinstance(t, ast.Name):
                add(t.id, kind if not path else 'unpack', value, stmt, path)
            elif isinstance(t, (ast.Tuple, ast.List)):
                for i, e in enumerate(t.elts):
                    if isinstance(value, (ast.Tuple, ast.List)) and len(value.elts) == len(t.elts) and not path:
                        bind(e, kind, value.elts[i], stmt, ())
                    else:
                        bind(e, kind, value, stmt, path + (i,))
            elif isinstance(t, ast.Starred):
                bind(t.value, kind, value, stmt, path + ('*',))
        for n in walk_local_ordered(self.node):
            if isinstance(n, ast.Assign):
                for t in n.targets:
                    bind(t, 'assign', n.value, n)
            elif isinstance(n, ast.AnnAssign) and n.value is not None:
                bind(n.target, 'assign', n.value, n)
            elif isinstance(n, ast.AugAssign):
                bind(n.target, 'aug', n.value, n)
            elif isinstance(n, ast.For):
                bind(n.target, 'for', n.iter, n)
            elif isinstance(n, ast.With):
                for it in n.items:
                    if it.optional_vars is not None:
                        bind(it.optional_vars, 'with', it.context_expr, n)
            elif isinstance(n, ast.comprehension):
                bind(n.target, 'comp', n.iter, n)
            elif isinstance(n, ast.ExceptHandler) and n.name:
                add(n.name, 'except', n.type, n)
            elif isinstance(n, ast.NamedExpr):
                bind(n.target, 'assign', n.value, n)
            elif isinstance(n, (ast.Import, ast.ImportFrom)):
                for a in n.names:
                    add((a.asname or a.name).split('.')[0], 'import', None, n)
            elif isinstance(n, (ast.FunctionDef, ast.ClassDef)):
                add(n.name, 'def', n, n)
        self._defs = d
        return d

    def unique_def(self, name):
        """The value expression of `name` when it is assigned exactly once by a plain `name = expr`."""
        ds = self.defs().get(name, [])
        if len(ds) == 1 and ds[0][0] == 'assign' and not ds[0][3]:
            return ds[0][1]
        return None

    def reaching_def(self, name_node):
        """Value of the closest preceding plain assignment `name = expr` that dominates `name_node` in straight-line code: previous siblings in the
        same block, then in the enclosing blocks (never across a loop boundary, never past a statement that may rebind the name). None otherwise."""
        if not isinstance(name_node, ast.Name) or name_node not in self.parents():
            return None
        name = name_node.id
        node = self.stmt_of(name_node)
        while node is not None and node is not self.node:
            par = self.parent(node)
            if par is None:
                return None
            block = None
            for f in ('body', 'orelse', 'finalbody'):
                lst = getattr(par, f, None)
                if isinstance(lst, list) and any(x is node for x in lst):
                    block = lst
            if block is None:
                if isinstance(par, ast.ExceptHandler):
                    node = par
                    continue
                return None
            idx = [i for i, x in enumerate(block) if x is node][0]
            for sib in reversed(block[:idx]):
                if isinstance(sib, ast.Assign) and len(sib.targets) == 1 and isinstance(sib.targets[0], ast.Name) and sib.targets[0].id == name:
                    return sib.value
                for x in ast.walk(sib):
                    if isinstance(x, ast.Name) and x.id == name and isinstance(x.ctx, (ast.Store, ast.Del)):
                        return None
            if isinstance(par, (ast.For, ast.While, ast.AsyncFor, ast.FunctionDef, ast.AsyncFunctionDef, ast.Lambda)):
                return None
            if isinstance(par, ast.Try) and block is not par.body:
                # handlers / else / finally run after (part of) the try body, which may rebind the name
                if any(isinstance(x, ast.Name) and x.id == name and isinstance(x.ctx, ast.Store) for b_ in par.body for x in ast.walk(b_)):
                    return None
            node = par
        return None

    def expand(self, expr, depth=6, stop=(), rebound=False):
        """Substitute local temporaries by their defining expressions: names with a single definition, and names whose closest dominating
        assignment in straight-line code is unambiguous (`_rv = E; return _rv` in several branches)."""
        fi = self
        reach = {}
        for n in ast.walk(expr):
            if isinstance(n, ast.Name) and isinstance(n.ctx, ast.Load) and n in fi.parents():
                v = fi.reaching_def(n)
                if v is not None:
                    reach[(n.lineno, n.col_offset, n.id)] = v

        class T(ast.NodeTransformer):
            def __init__(self, d, frozen=()):
                self.d = d
                self.frozen = frozen          # names that stand for the PARAMETER inside a rebinding `p = f(p)` already substituted

            def visit_Name(self, n):
                if isinstance(n.ctx, ast.Load) and n.id not in stop and n.id not in self.frozen and self.d > 0:
                    v = fi.unique_def(n.id)
                    if v is None:
                        v = reach.get((getattr(n, 'lineno', -1), getattr(n, 'col_offset', -1), n.id))
                        if v is None and n in fi.parents():
                            v = fi.reaching_def(n)
                    if v is not None and not any(isinstance(x, ast.Name) and x.id == n.id for x in ast.walk(v)):
                        return T(self.d - 1, self.frozen).visit(_copy(v))
                    if rebound and v is not None and n.id in fi.params + fi.kwonly and sum(1 for k_, *_ in fi.defs().get(n.id, []) if k_ != 'param') == 1:
                        # `p = f(p)` on a parameter, rebound once: the inner p is the argument as given
                        return T(self.d - 1, self.frozen + (n.id,)).visit(_copy(v))
                return n

            def visit_Lambda(self, n):
                return n

            def visit_Call(self, n):
                orig = n
                n = self.generic_visit(n)
                if self.d > 0:
                    r = fi._inline_helper(orig, n, self.d)
                    if r is not None:
                        return r
                return n
        # calls are resolved on the ORIGINAL nodes (they carry the parent links); the deep copy keeps a pointer to its original
        cp = _copy(expr)
        for a_, b_ in zip(ast.walk(expr), ast.walk(cp)):
            if isinstance(b_, ast.Call):
                b_._orig = a_
        return ast.fix_missing_locations(T(depth).visit(cp))

    def inline_call(self, call, depth=6):
        """The returned expression of a straight-line repo helper with the (expanded) arguments of `call` substituted - whether or not the helper existed on the
        pinned tree. For rules about the COMPOSITION of a caller and its helper (which of the two computes a part may change in a refactoring). None when
        the callee is not a straight-line helper."""
        c2 = _copy(call)
        c2.args = [self.expand(a) for a in call.args]
        for k_, orig_k in zip(c2.keywords, call.keywords):
            k_.value = self.expand(orig_k.value)
        c2._orig = call
        return self._inline_helper(call, c2, depth, force=True)

    def _inline_helper(self, orig, call, depth, force=False):
        """`helper(args)` -> the helper's returned expression with the parameters replaced by the arguments, when the helper did not exist on the pinned
        tree (obligations/known_functions.json) and is straight-line code (`name = expr` statements and one final return). Structural rules then see a
        function and the expression-level helpers extracted from it as one construct. None when not applicable."""
        repo = getattr(self.module, 'repo', None)
        if repo is None or any(isinstance(a, ast.Starred) for a in call.args) or any(k.arg is None for k in call.keywords):
            return None
        from .proto import known_functions
        src = getattr(orig, '_orig', orig)
        try:
            tg = repo.resolve_call(self, src, virtual=False)
        except Exception:
            return None
        if len(tg) != 1 or (tg[0].where in known_functions() and not force) or tg[0].node is self.node or tg[0].vararg or tg[0].kwarg:
            return None
        t = tg[0]
        body = t.body()
        if not body or not isinstance(body[-1], ast.Return) or body[-1].value is None:
            return None
        for s_ in body[:-1]:
            if not (isinstance(s_, ast.Assign) and len(s_.targets) == 1 and isinstance(s_.targets[0], ast.Name)):
                return None
        if any(isinstance(x, (ast.Lambda, ast.Yield, ast.YieldFrom, ast.Await, ast.NamedExpr)) for x in ast.walk(t.node)):
            return None
        # comprehensions are fine unless an argument mentions a name that a comprehension of the helper binds (capture)
        comp_names = {n.id for x in ast.walk(t.node) if isinstance(x, ast.comprehension) for n in ast.walk(x.target) if isinstance(n, ast.Name)}
        if comp_names and any(isinstance(n, ast.Name) and n.id in comp_names for a_ in list(call.args) + [k.value for k in call.keywords] for n in ast.walk(a_)):
            return None
        if t.is_method:
            rcv = call.func.value if isinstance(call.func, ast.Attribute) else None
            if not (isinstance(rcv, ast.Name) and rcv.id == self.self_name):
                return None
        params = t.real_params
        assigned = {s_.targets[0].id for s_ in body[:-1]}
        bind = {}
        for k_, a_ in enumerate(call.args):
            if k_ >= len(params):
                return None
            bind[params[k_]] = a_
        for kw in call.keywords:
            if kw.arg not in params + t.kwonly or kw.arg in bind:
                return None
            bind[kw.arg] = kw.value
        for p_, d_ in t.defaults().items():
            bind.setdefault(p_, d_)
        if set(params + t.kwonly) - set(bind) or set(bind) & assigned:
            return None
        e = t.expand(body[-1].value, depth=depth - 1)
        selfmap = {t.self_name: self.self_name} if t.is_method and t.self_name != self.self_name else {}

        class S(ast.NodeTransformer):
            def visit_Name(self, n):
                if isinstance(n.ctx, ast.Load) and n.id in bind:
                    return _copy(bind[n.id])
                if n.id in selfmap:
                    return ast.copy_location(ast.Name(id=selfmap[n.id], ctx=n.ctx), n)
                return n
        out = S().visit(_copy(e))
        # free local names of the helper must not leak into the caller
        if any(isinstance(x, ast.Name) and x.id in assigned for x in ast.walk(out)):
            return None
        return ast.copy_location(out, call)


def _copy(node):
    import copy
    return copy.deepcopy(node)


class ClassInfo:
    def __init__(self, module, node):
        self.module, self.node, self.name = module, node, node.name
        self.bases = [dotted(b) or unparse(b) for b in node.bases]
        self.methods = {}
        self.props = {}      # name -> {'get': FuncInfo, 'set': FuncInfo}
        self.class_attrs = {}
        for s in node.body:
            if isinstance(s, ast.FunctionDef):
                fi = FuncInfo(module, self, s)
                decs = fi.decorators
                if 'property' in decs:
                    self.props.setdefault(s.name, {})['get'] = fi
                elif any(d.endswith('.setter') for d in decs):
                    self.props.setdefault(s.name, {})['set'] = fi
                else:
                    self.methods[s.name] = fi
            elif isinstance(s, ast.Assign):
                for t in s.targets:
                    if isinstance(t, ast.Name):
                        self.class_attrs[t.id] = s.value
                        # `__add__ = _make_op('add')`: a method produced by a module-level factory that returns a nested function
                        m_ = self._factory_method(module, t.id, s.value)
                        if m_ is not None:
                            self.methods[t.id] = m_

    def _factory_method(self, module, name, value):
        if not (isinstance(value, ast.Call) and isinstance(value.func, ast.Name) and not value.keywords and
                all(isinstance(a, ast.Constant) for a in value.args)):
            return None
        fac = next((n for n in module.tree.body if isinstance(n, ast.FunctionDef) and n.name == value.func.id), None)
        if fac is None or len(fac.args.args) != len(value.args):
            return None
        inner = [n for n in fac.body if isinstance(n, ast.FunctionDef)]
        rets = [n for n in fac.body if isinstance(n, ast.Return) and n.value is not None]
        if len(inner) != 1 or len(rets) != 1 or not (isinstance(rets[0].value, ast.Name) and rets[0].value.id == inner[0].name):
            return None
        import copy as _copy
        node = _copy.deepcopy(inner[0])
        node.name = name
        fi = FuncInfo(module, self, node)
        fi.closure = {p_.arg: a_.value for p_, a_ in zip(fac.args.args, value.args)}     # free variables of the nested function bound by the factory call
        fi.factory = fac.name
        return fi

    @property
    def where(self):
        return '%s:%s' % (self.module.rel, self.name)


class Module:
    def __init__(self, rel, path, src=None):
        self.rel, self.path = rel, path
        self.src = path.read_text() if src is None else src
        self.tree = ast.parse(self.src, filename=str(path))
        self.dotted = rel[:-3].replace('/', '.')
        if self.dotted.endswith('.__init__'):
            self.dotted = self.dotted[:-9]
        self.imports = {}    # local alias -> dotted target ('numpy', 'phylib.io.array._index_of', ...)
        self.funcs = {}      # qualname -> FuncInfo   (module-level functions, methods, properties as 'C.p', 'C.p.setter')
        self.classes = {}
        self.consts = {}     # module-level NAME = <expr>
        self.aliases = {}    # module-level name = dotted expr  (emit = _EVENT.emit)
        self._index()

    def _resolve_relative(self, level, mod):
        base = self.dotted.split('.')
        if not self.rel.endswith('__init__.py'):
            base = base[:-1]
        if level > 1:
            base = base[:-(level - 1)]
        return '.'.join(base + ([mod] if mod else []))

    def _index(self):
        for s in self.tree.body:
            self._index_stmt(s)

    def _index_stmt(self, s):
        if isinstance(s, ast.Import):
            for a in s.names:
                self.imports[a.asname or a.name.split('.')[0]] = a.name if a.asname else a.name.split('.')[0]
        elif isinstance(s, ast.ImportFrom):
            mod = self._resolve_relative(s.level, s.module) if s.level else (s.module or '')
            for a in s.names:
                self.imports[a.asname or a.name] = '%s.%s' % (mod, a.name)
        elif isinstance(s, ast.FunctionDef):
            self.funcs[s.name] = FuncInfo(self, None, s)
        elif isinstance(s, ast.ClassDef):
            ci = ClassInfo(self, s)
            self.classes[s.name] = ci
            for m, fi in ci.methods.items():
                self.funcs['%s.%s' % (s.name, m)] = fi
            for p, d in ci.props.items():
                if 'get' in d:
                    self.funcs['%s.%s' % (s.name, p)] = d['get']
                if 'set' in d:
                    self.funcs['%s.%s.setter' % (s.name, p)] = d['set']
        elif isinstance(s, ast.Assign):
            for t in s.targets:
                if isinstance(t, ast.Name):
                    self.consts[t.id] = s.value
                    d = dotted(s.value)
                    if d:
                        self.aliases[t.id] = d
        elif isinstance(s, (ast.If, ast.Try)):
            for b in ast.iter_child_nodes(s):
                if isinstance(b, ast.stmt):
                    self._index_stmt(b)

    def const_strings(self, name):
        """Module constant that is a tuple/list of string constants -> list[str] (else None)."""
        v = self.consts.get(name)
        if isinstance(v, (ast.Tuple, ast.List)) and all(isinstance(e, ast.Constant) and isinstance(e.value, str) for e in v.elts):
            return [e.value for e in v.elts]
        return None


# receiver types for the few cross-object attribute references (front end table, DESIGN §4.0)
RECEIVER_TYPES = {
    ('phylib/io/alf.py', 'EphysAlfCreator', 'model'): ('phylib/io/model.py', 'TemplateModel'),
    ('phylib/io/model.py', 'TemplateModel', 'traces'): ('phylib/io/traces.py', 'BaseEphysReader'),
}


class Repo:
    def __init__(self, root=None, overrides=None):
        """overrides: {rel: source text} replaces (or adds) modules in memory - used by the
        canaries and by the sensitivity sweep, never for the verdict on /repo."""
        self.root = Path(root or REPO)
        self.overrides = dict(overrides or {})
        self.modules = {}
        pkg = self.root / PKG
        if not pkg.is_dir():
            raise AnalysisError('no package directory %s' % pkg)
        for p in sorted(pkg.rglob('*.py')):
            rel = str(p.relative_to(self.root))
            if '/tests/' in rel or rel.endswith('conftest.py'):
                continue
            try:
                self.modules[rel] = Module(rel, p, self.overrides.get(rel))
                self.modules[rel].repo = self
            except SyntaxError as e:
                raise AnalysisError('cannot parse %s: %s' % (rel, e))
        for rel, src in self.overrides.items():
            if rel not in self.modules:
                self.modules[rel] = Module(rel, self.root / rel, src)
                self.modules[rel].repo = self
        self.by_dotted = {m.dotted: m for m in self.modules.values()}
        self._cg = None
        self._flat = {}
        if not os.environ.get('VERIF_NOFLAT'):
            try:
                self._flatten_all()
            except RecursionError:
                pass

    # ---- helpers extracted after the pinned tree, put back where they came from
    def _flatten_all(self):
        """A statement `x = helper(a, b)` / `helper(a)` / `return helper(a)` whose callee (same module) did not exist on the pinned tree, has a straight body
        ending in its only `return`, and is passed plain arguments, is replaced IN THE ANALYSED COPY of the caller by the callee's body (parameters substituted,
        colliding locals renamed, the return turned into the assignment). The structural rules and the engines then see the function as it was before the
        helper was extracted. Functions of the pinned tree are never touched (nothing happens on the unchanged tree); the helpers stay resolvable."""
        from .proto import known_functions
        known = known_functions()
        for m in list(self.modules.values()):
            for q_, fi in list(m.funcs.items()):
                if any(isinstance(n, ast.Call) for n in ast.walk(fi.node)):
                    nf_ = self._flat_of(fi, known, ())
                    if nf_ is not fi:
                        m.funcs[q_] = nf_
                        if fi.cls is not None:
                            for k_, v_ in list(fi.cls.methods.items()):
                                if v_ is fi:
                                    fi.cls.methods[k_] = nf_
                            for pn, d_ in fi.cls.props.items():
                                for kk in list(d_):
                                    if d_[kk] is fi:
                                        d_[kk] = nf_

    def _flat_of(self, fi, known, stack):
        key = id(fi.node)
        if key in self._flat:
            return self._flat[key]
        if len(stack) > 3 or any(x is fi for x in stack):
            return fi
        import copy as _copy
        caller_names = {n.id for n in ast.walk(fi.node) if isinstance(n, ast.Name)} | set(fi.params) | set(fi.kwonly)
        changed = [False]
        counter = [0]

        def simple(e):
            return isinstance(e, (ast.Name, ast.Constant)) or (isinstance(e, ast.Attribute) and simple(e.value))

        def inline_site(stmt):
            """-> list of statements replacing stmt, or None"""
            if isinstance(stmt, ast.Assign) and isinstance(stmt.value, ast.Call) and len(stmt.targets) == 1:
                call, form = stmt.value, 'assign'
            elif isinstance(stmt, ast.Expr) and isinstance(stmt.value, ast.Call):
                call, form = stmt.value, 'expr'
            elif isinstance(stmt, ast.Return) and isinstance(stmt.value, ast.Call):
                call, form = stmt.value, 'return'
            else:
                return None
            if any(isinstance(a, ast.Starred) for a in call.args) or any(k.arg is None for k in call.keywords):
                return None
            try:
                tg = self.resolve_call(fi, call, virtual=False)
            except Exception:
                return None
            if len(tg) != 1:
                return None
            g = tg[0]
            if g.where in known or g is fi or g.module is not fi.module or g.vararg or g.kwarg or g.outer is not None:
                return None
            if any(d not in ('staticmethod',) for d in g.decorators):
                return None
            g = self._flat_of(g, known, stack + (fi,))
            body = g.body()
            if not body:
                return None
            for b in body:
                for n in ast.walk(b):
                    if isinstance(n, (ast.FunctionDef, ast.AsyncFunctionDef, ast.Lambda, ast.Global, ast.Nonlocal, ast.Yield, ast.YieldFrom, ast.ClassDef)):
                        return None
            rets = [n for b in body for n in ast.walk(b) if isinstance(n, ast.Return)]
            if len(rets) > 1 or (rets and rets[0] is not body[-1]):
                return None
            if len(list(ast.walk(g.node))) > 400:
                return None
            params = list(g.params)
            binds = []
            if g.is_method:
                if not isinstance(call.func, ast.Attribute) or not params:
                    return None
                binds.append((params[0], call.func.value))
                params = params[1:]
            if len(call.args) > len(params):
                return None
            for p_, a_ in zip(params, call.args):
                binds.append((p_, a_))
            bound = {p_ for p_, _ in binds}
            for k in call.keywords:
                if k.arg in bound or k.arg not in params + g.kwonly:
                    return None
                binds.append((k.arg, k.value))
                bound.add(k.arg)
            for p_, d_ in g.defaults().items():
                if p_ not in bound:
                    binds.append((p_, d_))
                    bound.add(p_)
            if any(p_ not in bound for p_ in params + g.kwonly):
                return None
            stored = {n.id for b in body for n in ast.walk(b) if isinstance(n, ast.Name) and isinstance(n.ctx, (ast.Store, ast.Del))}
            counter[0] += 1
            sub, pre = {}, []
            in_loop = any(isinstance(a, (ast.For, ast.While)) for a in fi.ancestors(stmt)) if stmt in fi.parents() else True
            end = getattr(stmt, 'end_lineno', stmt.lineno)
            for p_, a_ in binds:
                if simple(a_) and p_ not in stored:
                    sub[p_] = a_
                elif isinstance(a_, ast.Name) and a_.id == p_ and not in_loop and \
                        not any(isinstance(n, ast.Name) and n.id == p_ and isinstance(n.ctx, ast.Load) and n.lineno > end for n in ast.walk(fi.node)):
                    # `x = clip(x)` inside the helper on a caller variable of the same name that the caller never reads again: the helper's variable IS the caller's
                    continue
                else:
                    fresh = p_ if (p_ not in caller_names) else '%s_h%d' % (p_, counter[0])
                    caller_names.add(fresh)
                    pre.append(ast.copy_location(ast.Assign(targets=[ast.Name(id=fresh, ctx=ast.Store())], value=_copy.deepcopy(a_)), stmt))
                    if fresh != p_:
                        sub[p_] = ast.Name(id=fresh, ctx=ast.Load())
            ren = {}
            # a helper local that is returned INTO a caller variable is that variable: `def h(): b = ..; return b` called as `b = h()` (also positionally for tuples)
            drop_final = False
            if form == 'assign' and rets and rets[0].value is not None:
                rv, tv = rets[0].value, stmt.targets[0]
                pairs = None
                if isinstance(rv, ast.Name) and isinstance(tv, ast.Name):
                    pairs = [(rv.id, tv.id)]
                elif isinstance(rv, ast.Tuple) and isinstance(tv, (ast.Tuple, ast.List)) and len(rv.elts) == len(tv.elts) and \
                        all(isinstance(x, ast.Name) for x in rv.elts) and all(isinstance(x, ast.Name) for x in tv.elts):
                    pairs = [(a.id, b.id) for a, b in zip(rv.elts, tv.elts)]
                if pairs and len({a for a, _ in pairs}) == len(pairs) and len({b for _, b in pairs}) == len(pairs) and \
                        all(a in stored and a not in sub and a not in {p_ for p_, _ in binds} for a, _ in pairs) and \
                        not any(b in stored and b not in {a2 for a2, _ in pairs} for _, b in pairs) and \
                        not any(b in {p_ for p_, _ in binds} for _, b in pairs):
                    for a, b in pairs:
                        if a != b:
                            ren[a] = b
                    for a, b in pairs:
                        if b in stored and b != a and b not in ren:
                            ren[b] = '%s_h%d' % (b, counter[0])
                    drop_final = True
            for nm in sorted(stored):
                if nm in sub or nm in ren:
                    continue
                if drop_final and nm in {b for _, b in pairs}:
                    continue
                if nm in caller_names and nm not in {p_ for p_, _ in binds}:
                    ren[nm] = '%s_h%d' % (nm, counter[0])
                caller_names.add(ren.get(nm, nm))

            class Sub(ast.NodeTransformer):
                def visit_Name(self, n):
                    if n.id in sub and isinstance(n.ctx, ast.Load):
                        return ast.copy_location(_copy.deepcopy(sub[n.id]), n)
                    if n.id in sub and isinstance(sub[n.id], ast.Name):
                        return ast.copy_location(ast.Name(id=sub[n.id].id, ctx=n.ctx), n)
                    if n.id in ren:
                        return ast.copy_location(ast.Name(id=ren[n.id], ctx=n.ctx), n)
                    return n
            out = list(pre)
            for b in body:
                nb = Sub().visit(_copy.deepcopy(b))
                if isinstance(nb, ast.Return):
                    v = nb.value if nb.value is not None else ast.Constant(value=None)
                    if form == 'assign' and drop_final:
                        continue
                    if form == 'assign':
                        nb = ast.copy_location(ast.Assign(targets=[_copy.deepcopy(t) for t in stmt.targets], value=v), b)
                    elif form == 'expr':
                        nb = ast.copy_location(ast.Expr(value=v), b)
                    else:
                        nb = ast.copy_location(ast.Return(value=v), b)
                out.append(nb)
            if not rets:
                if form == 'assign':
                    out.append(ast.copy_location(ast.Assign(targets=[_copy.deepcopy(t) for t in stmt.targets], value=ast.Constant(value=None)), stmt))
                elif form == 'return':
                    out.append(ast.copy_location(ast.Return(value=ast.Constant(value=None)), stmt))
            changed[0] = True
            return out

        def block(stmts):
            res = []
            for st in stmts:
                rep = inline_site(st)
                if rep is not None:
                    res.extend(rep)
                    continue
                for f_ in ('body', 'orelse', 'finalbody'):
                    sub_ = getattr(st, f_, None)
                    if isinstance(sub_, list) and sub_ and isinstance(sub_[0], ast.stmt) and not isinstance(st, (ast.FunctionDef, ast.AsyncFunctionDef, ast.ClassDef)):
                        nb = block(sub_)
                        if nb is not sub_:
                            st = _copy.copy(st)
                            setattr(st, f_, nb)
                for h_i, h in enumerate(getattr(st, 'handlers', []) or []):
                    nb = block(h.body)
                    if nb is not h.body:
                        st = _copy.copy(st)
                        st.handlers = list(st.handlers)
                        h2 = _copy.copy(h)
                        h2.body = nb
                        st.handlers[h_i] = h2
                res.append(st)
            return res if (len(res) != len(stmts) or any(a is not b for a, b in zip(res, stmts))) else stmts
        self._flat[key] = fi          # cycle guard while working
        new_body = block(fi.node.body)
        if not changed[0]:
            return fi
        node = _copy.copy(fi.node)
        node.body = new_body
        ast.fix_missing_locations(node)
        nf_ = FuncInfo(fi.module, fi.cls, node, fi.outer)
        for attr in ('closure',):
            if hasattr(fi, attr):
                setattr(nf_, attr, getattr(fi, attr))
        nf_.flat_of = fi
        self._flat[key] = nf_
        self._flat[id(node)] = nf_
        return nf_

    # ---- anchors
    def module(self, rel):
        if rel not in self.modules:
            raise AnchorMissing('module %s' % rel)
        return self.modules[rel]

    def func(self, rel, qualname):
        m = self.module(rel)
        if qualname not in m.funcs:
            raise AnchorMissing('function %s:%s' % (rel, qualname))
        return m.funcs[qualname]

    def has_func(self, rel, qualname):
        return rel in self.modules and qualname in self.modules[rel].funcs

    def cls(self, rel, name):
        m = self.module(rel)
        if name not in m.classes:
            raise AnchorMissing('class %s:%s' % (rel, name))
        return m.classes[name]

    def all_funcs(self):
        for m in self.modules.values():
            seen = set()
            for fi in m.funcs.values():
                if id(fi) not in seen:
                    seen.add(id(fi))
                    yield fi

    # ---- classes
    def resolve_class_name(self, module, name):
        """A (possibly imported) class name used in `module` -> ClassInfo or None."""
        if name in module.classes:
            return module.classes[name]
        tgt = module.imports.get(name.split('.')[0])
        if tgt:
            full = tgt + name[len(name.split('.')[0]):]
            modname, _, cname = full.rpartition('.')
            m = self.by_dotted.get(modname)
            if m and cname in m.classes:
                return m.classes[cname]
            # re-export through a package __init__
            m = self.by_dotted.get(modname)
            if m and cname in m.imports:
                return self.resolve_class_name(m, cname)
        return None

    def mro(self, ci):
        out, todo = [], [ci]
        while todo:
            c = todo.pop(0)
            if c in out:
                continue
            out.append(c)
            for b in c.bases:
                bc = self.resolve_class_name(c.module, b)
                if bc is not None:
                    todo.append(bc)
        return out

    def subclasses(self, ci, strict=True):
        out = []
        for m in self.modules.values():
            for c in m.classes.values():
                if c is ci and strict:
                    continue
                if ci in self.mro(c):
                    out.append(c)
        return out

    def lookup_method(self, ci, name, after=None):
        """Method `name` through the MRO of ci (starting after class `after` for super())."""
        mro = self.mro(ci)
        if after is not None and after in mro:
            mro = mro[mro.index(after) + 1:]
        for c in mro:
            if name in c.methods:
                return c.methods[name]
        return None

    def lookup_prop(self, ci, name):
        for c in self.mro(ci):
            if name in c.props:
                return c.props[name]
        return None

    def lookup_class_attr(self, ci, name):
        for c in self.mro(ci):
            if name in c.class_attrs:
                return c.class_attrs[name]
        return None

    # ---- name and call resolution
    def resolve_name(self, module, name):
        """module-level name -> ('func', FuncInfo) | ('class', ClassInfo) | ('ext', dotted) | ('alias', ...) | None"""
        seen = set()
        while True:
            if (module.rel, name) in seen:
                return None
            seen.add((module.rel, name))
            if name in module.funcs and module.funcs[name].cls is None:
                return ('func', module.funcs[name])
            if name in module.classes:
                return ('class', module.classes[name])
            if name in module.aliases and name not in module.imports:
                d = module.aliases[name].split('.')
                # emit = _EVENT.emit  with _EVENT = EventEmitter()
                if len(d) == 2 and d[0] in module.consts:
                    v = module.consts[d[0]]
                    if isinstance(v, ast.Call):
                        c = self.resolve_class_name(module, dotted(v.func) or '')
                        if c is not None:
                            m = self.lookup_method(c, d[1])
                            if m is not None:
                                return ('bound', m)
                return None
            if name in module.imports:
                tgt = module.imports[name]
                modname, _, attr = tgt.rpartition('.')
                if tgt in self.by_dotted:
                    return ('module', self.by_dotted[tgt])
                m = self.by_dotted.get(modname)
                if m is not None:
                    module, name = m, attr
                    continue
                return ('ext', tgt)
            return None

    def ext_name(self, fi, func_node):
        """Dotted external name of a callee expression using the module's import table
        (`np.save` -> 'numpy.save', `shutil.copy` -> 'shutil.copy'); None if not external."""
        chain = attr_chain(func_node)
        if not chain:
            return None
        head = chain[0]
        if head in fi.defs() and not any(k == 'import' for k, *_ in fi.defs()[head]):
            return None
        loc_imp = None
        for k, v, st, ex in fi.defs().get(head, []):
            if k == 'import':
                loc_imp = st
        if loc_imp is not None:
            for a in loc_imp.names:
                nm = a.asname or a.name
                if nm.split('.')[0] == head:
                    if isinstance(loc_imp, ast.ImportFrom):
                        return '.'.join(['%s.%s' % (loc_imp.module, a.name)] + chain[1:])
                    return '.'.join([a.name if a.asname else head] + chain[1:])
        r = self.resolve_name(fi.module, head)
        if r and r[0] == 'ext':
            return '.'.join([r[1]] + chain[1:])
        if r is None and head in fi.module.imports:
            return '.'.join([fi.module.imports[head]] + chain[1:])
        if r is None and len(chain) == 1 and hasattr(_builtins, head):
            return 'builtins.' + head
        return None

    def receiver_class(self, fi, value_node):
        """Static class of a receiver expression: `self`, `self.model`, `super()`."""
        if fi.cls is None:
            return None, None
        if isinstance(value_node, ast.Name) and value_node.id == fi.self_name:
            return fi.cls, None
        if isinstance(value_node, ast.Call) and isinstance(value_node.func, ast.Name) and value_node.func.id == 'super':
            return fi.cls, fi.cls
        ch = attr_chain(value_node)
        if ch and len(ch) == 2 and ch[0] == fi.self_name:
            key = (fi.module.rel, fi.cls.name, ch[1])
            if key in RECEIVER_TYPES:
                rel, cname = RECEIVER_TYPES[key]
                if rel in self.modules and cname in self.modules[rel].classes:
                    return self.modules[rel].classes[cname], None
        return None, None

    def transparent_closure(self, fi, depth=3):
        """`fi` plus the repo functions it (transitively) calls that did NOT exist on the pinned tree (obligations/known_functions.json): helpers extracted by a
        later refactoring are part of the function they were extracted from, as far as structural rules are concerned."""
        from .proto import known_functions
        known = known_functions()
        out, todo = [fi], [(fi, 0)]
        while todo:
            f, d = todo.pop()
            if d >= depth:
                continue
            for c in f.calls():
                try:
                    tg = self.resolve_call(f, c, virtual=False)
                except Exception:
                    tg = []
                for t in tg:
                    if t.where not in known and not any(t.node is x.node for x in out):
                        out.append(t)
                        todo.append((t, d + 1))
        return out

    def resolve_call(self, fi, call, virtual=True):
        """Repo functions a call may invoke -> list[FuncInfo] (empty when external/unknown)."""
        f = call.func
        if isinstance(f, ast.Name):
            if f.id in fi.defs() and all(k != 'import' for k, *_ in fi.defs()[f.id]):
                # local nested def / local variable
                for k, v, st, ex in fi.defs()[f.id]:
                    if k == 'def' and isinstance(v, ast.FunctionDef):
                        return [FuncInfo(fi.module, None, v, outer=fi)]
                return self._callable_values(fi, f.id)
            r = self.resolve_name(fi.module, f.id)
            if r is None:
                return []
            if r[0] in ('func', 'bound'):
                return [r[1]]
            if r[0] == 'class':
                init = self.lookup_method(r[1], '__init__')
                return [init] if init else []
            return []
        if isinstance(f, ast.Attribute):
            ci, after = self.receiver_class(fi, f.value)
            if ci is not None:
                m = self.lookup_method(ci, f.attr, after=after)
                out = [m] if m else []
                if virtual and after is None:
                    for sc in self.subclasses(ci):
                        if f.attr in sc.methods and sc.methods[f.attr] not in out:
                            out.append(sc.methods[f.attr])
                return out
            # module.func
            ch = attr_chain(f)
            if ch and len(ch) == 2:
                r = self.resolve_name(fi.module, ch[0])
                if r and r[0] == 'module' and ch[1] in r[1].funcs:
                    return [r[1].funcs[ch[1]]]
                if r and r[0] == 'class':
                    m = self.lookup_method(r[1], ch[1])
                    return [m] if m else []
        return []

    def _callable_values(self, fi, name):
        """Method values: the repo functions a local can hold when it is a loop variable over a literal table of callables
        (`for n, step in ((10, self.a), (5, partial(self.b, x=1))): step()`) or is assigned one (`step = self.a`). [] when not of that form."""
        out = []

        def target_of(e):
            if isinstance(e, ast.Call) and (dotted(e.func) or '').split('.')[-1] == 'partial' and e.args:
                e = e.args[0]
            if isinstance(e, ast.Attribute):
                ci, after = self.receiver_class(fi, e.value)
                if ci is not None:
                    m = self.lookup_method(ci, e.attr, after=after)
                    return [m] if m else []
            if isinstance(e, ast.Name):
                r = self.resolve_name(fi.module, e.id)
                if r is not None and r[0] in ('func', 'bound'):
                    return [r[1]]
            return []
        def pick(row, ex):
            cell = row
            for i in (ex or ()):
                if isinstance(cell, (ast.Tuple, ast.List)) and isinstance(i, int) and i < len(cell.elts):
                    cell = cell.elts[i]
                else:
                    return None
            return cell

        def rows_of(v, depth):
            """Elements iterated by `for ... in v`: a literal table, a local bound to one, or the loop variable of an enclosing loop over a table of tables
            (`for steps in groups: for step in steps:`)."""
            if depth > 3:
                return None
            table = fi.expand(v) if isinstance(v, ast.Name) else v
            if isinstance(table, (ast.Tuple, ast.List)):
                return list(table.elts)
            if isinstance(v, ast.Name):
                rows = []
                ds = fi.defs().get(v.id, [])
                if not ds or not all(k_ in ('for', 'comp') and v_ is not None for k_, v_, _s, _e in ds):
                    return None
                for k_, v_, _s, ex_ in ds:
                    outer = rows_of(v_, depth + 1)
                    if outer is None:
                        return None
                    for row in outer:
                        cell = pick(row, ex_)
                        if not isinstance(cell, (ast.Tuple, ast.List)):
                            return None
                        rows.extend(cell.elts)
                return rows
            return None
        for k, v, st, ex in fi.defs().get(name, []):
            if k == 'assign' and v is not None and not ex:
                out.extend(target_of(v))
            elif k in ('for', 'unpack', 'comp') and v is not None:
                for row in rows_of(v, 0) or ():
                    cell = pick(row, ex)
                    if cell is not None:
                        out.extend(target_of(cell))
        seen, uniq = set(), []
        for m in out:
            if id(m.node) not in seen:
                seen.add(id(m.node))
                uniq.append(m)
        return uniq

    def prop_reads(self, fi):
        """(node, getter FuncInfo) for attribute loads on self / typed receivers that resolve to a property."""
        out = []
        for n in fi.nodes(ast.Attribute):
            if isinstance(n.ctx, ast.Load):
                ci, _ = self.receiver_class(fi, n.value)
                if ci is not None:
                    p = self.lookup_prop(ci, n.attr)
                    if p and 'get' in p:
                        out.append((n, p['get']))
        return out

    def callgraph(self):
        if self._cg is None:
            cg = {}
            stats = {'calls': 0, 'resolved': 0, 'external': 0, 'unresolved': 0}
            for fi in self.all_funcs():
                outs = []
                for c in fi.calls():
                    stats['calls'] += 1
                    tg = self.resolve_call(fi, c)
                    if tg:
                        stats['resolved'] += 1
                        outs.extend((c, t) for t in tg)
                    elif self.ext_name(fi, c.func):
                        stats['external'] += 1
                    else:
                        stats['unresolved'] += 1
                for n, g in self.prop_reads(fi):
                    outs.append((n, g))
                cg[fi] = outs
            self._cg = (cg, stats)
        return self._cg

    def reachable(self, roots):
        cg, _ = self.callgraph()
        seen, todo = [], list(roots)
        while todo:
            f = todo.pop()
            if f in seen:
                continue
            seen.append(f)
            for _, t in cg.get(f, []):
                key = [x for x in seen if x.node is t.node]
                if not key:
                    todo.append(self._canon(t))
        return seen

    def _canon(self, fi):
        for g in self.all_funcs():
            if g.node is fi.node:
                return g
        return fi


# ------------------------------------------------------------------------------------------------
# small string partial evaluator (constant propagation for names of files, ops, events)
class Sym(str):
    """A symbolic string piece (e.g. the value of a parameter) inside a pattern."""


def str_eval(node, env=None, fi=None, depth=4):
    """Evaluate a string-building expression to a concrete string, with names looked up in `env`
    (name -> str). Supports literals, '%' formatting, f-strings, '+', str(), .format with positional
    args, Path / 'x' (joined with '/'), `.name`/`.stem` are not interpreted. Returns None when not computable."""
    env = env or {}
    if isinstance(node, ast.Constant) and isinstance(node.value, str):
        return node.value
    if isinstance(node, ast.Constant) and isinstance(node.value, (int, float)):
        return str(node.value)
    if isinstance(node, ast.Name):
        if node.id in env:
            return env[node.id]
        if fi is not None and depth > 0:
            v = fi.unique_def(node.id)
            if v is not None:
                return str_eval(v, env, fi, depth - 1)
            if node.id in fi.module.consts and node.id not in fi.defs():
                return str_eval(fi.module.consts[node.id], env, None, depth - 1)
        return None
    if isinstance(node, ast.Attribute):
        d = dotted(node)
        if d and d in env:
            return env[d]
        return None
    if isinstance(node, ast.JoinedStr):
        out = ''
        for v in node.values:
            if isinstance(v, ast.Constant):
                out += str(v.value)
            elif isinstance(v, ast.FormattedValue):
                s = str_eval(v.value, env, fi, depth)
                if s is None or v.format_spec is not None or v.conversion not in (-1, 115):
                    return None
                out += s
        return out
    if isinstance(node, ast.BinOp) and isinstance(node.op, ast.Add):
        a, b = str_eval(node.left, env, fi, depth), str_eval(node.right, env, fi, depth)
        return a + b if a is not None and b is not None else None
    if isinstance(node, ast.BinOp) and isinstance(node.op, ast.Div):
        a, b = str_eval(node.left, env, fi, depth), str_eval(node.right, env, fi, depth)
        return a.rstrip('/') + '/' + b if a is not None and b is not None else None
    if isinstance(node, ast.BinOp) and isinstance(node.op, ast.Mod):
        fmt = str_eval(node.left, env, fi, depth)
        if fmt is None:
            return None
        args = node.right.elts if isinstance(node.right, ast.Tuple) else [node.right]
        vals = [str_eval(a, env, fi, depth) for a in args]
        if any(v is None for v in vals):
            return None
        try:
            return fmt.replace('%d', '%s') % tuple(vals)
        except Exception:
            return None
    if isinstance(node, ast.Call):
        f = dotted(node.func)
        if f == 'str' and len(node.args) == 1:
            return str_eval(node.args[0], env, fi, depth)
        if isinstance(node.func, ast.Attribute) and node.func.attr == 'format' and not node.keywords:
            fmt = str_eval(node.func.value, env, fi, depth)
            vals = [str_eval(a, env, fi, depth) for a in node.args]
            if fmt is None or any(v is None for v in vals):
                return None
            try:
                return fmt.format(*vals)
            except Exception:
                return None
        if isinstance(node.func, ast.Attribute) and node.func.attr == 'joinpath' and len(node.args) == 1:
            a, b = str_eval(node.func.value, env, fi, depth), str_eval(node.args[0], env, fi, depth)
            return a.rstrip('/') + '/' + b if a is not None and b is not None else None
        if f in ('Path', 'str', 'pathlib.Path') and len(node.args) == 1:
            return str_eval(node.args[0], env, fi, depth)
    return None
