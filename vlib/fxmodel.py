"""Repo-specific summaries shared by the effect obligations (C04, C10, C11, C13)."""
from . import fx
from .fx import Fx, P, K, O, L, R, U, A

M = 'phylib/io/model.py'
TR = 'phylib/io/traces.py'


def find_path_summary(fxi, t, call, args, kwargs, recv):
    """TemplateModel._find_path(*names): a path under the model's dir_path whose name is one of `names`.
    (trusted: the function globs self.dir_path; checked structurally by C04.T1's anchor test)"""
    root = 'unknown'
    if isinstance(recv, O) and isinstance(recv.fields.get('dir_path'), P):
        root = recv.fields['dir_path'].root
    names = [a.v if isinstance(a, K) and isinstance(a.v, str) else '*' for a in args]
    return P(root, '|'.join(names) if names else None)


def reader_summary(fxi, t, call, args, kwargs, recv):
    """get_ephys_reader(obj, **kw): the class is chosen dynamically - every concrete reader constructor may run."""
    repo = fxi.repo
    base = repo.cls(TR, 'BaseEphysReader')
    kw = dict(kwargs)
    if 'n_channels_dat' in kw:
        kw['n_channels'] = kw.pop('n_channels_dat')
    out = None
    for c in repo.subclasses(base):
        init = repo.lookup_method(c, '__init__')
        if init is None or c.name.startswith('Random'):
            continue
        obj = O(c)
        fxi.call_function(init, call, [args[0] if args else U], kw, obj)
        out = fx.join(out, obj)
    return out if out is not None else U


def model_obj(repo, root='DATASET'):
    cls = repo.cls(M, 'TemplateModel')
    return O(cls, {'dir_path': P(root, ''), 'dat_path': L([P('RAW', 'raw.dat')]), 'sample_rate': U, 'n_channels_dat': U, 'dtype': U, 'offset': U})


def load_model_summary(fxi, t, call, args, kwargs, recv):
    """load_model(p): a TemplateModel whose dir_path is the directory of p (trusted: params.py does not redefine dir_path)."""
    root = 'unknown'
    for a in fx.alts(args[0]) if args else []:
        if isinstance(a, P):
            root = a.root
    obj = model_obj(fxi.repo, root)
    init = fxi.repo.func(M, 'TemplateModel.__init__')
    fxi.call_function(init, call, [], {}, obj)
    return obj


def make_fx(repo):
    f = Fx(repo)
    f.summaries[(M, 'TemplateModel._find_path')] = find_path_summary
    f.summaries[(TR, 'get_ephys_reader')] = reader_summary
    f.summaries[(M, 'load_model')] = load_model_summary
    return f


def check_find_path_anchor(repo):
    """The summary of _find_path is only valid while the function globs self.dir_path."""
    fi = repo.func(M, 'TemplateModel._find_path')
    import ast
    txt = ast.unparse(fi.node)
    return 'self.dir_path.glob(' in txt


def effect_sites(effects, kinds=('write', 'delete', 'mmap-write', 'mkdir')):
    seen, out = set(), []
    for e in effects:
        if e.kind not in kinds:
            continue
        p = e.path
        root, pat = (p.root, p.pat) if isinstance(p, P) else ('unknown', None)
        key = (e.kind, root, pat, e.where())
        if key in seen:
            continue
        seen.add(key)
        out.append((e, root, pat))
    return out
