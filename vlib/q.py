"""Small query helpers over ast used by the obligation tables."""
import ast

from .front import unparse, dotted, attr_chain, const_value, is_none, walk_local, walk_local_ordered


def callee(call):
    """dotted text of the callee ('np.save', 'self._find_path', 'open')."""
    return dotted(call.func) or unparse(call.func)


def method_name(call):
    return call.func.attr if isinstance(call.func, ast.Attribute) else (call.func.id if isinstance(call.func, ast.Name) else None)


def calls_named(node_or_fi, *names):
    """Calls under a node (not entering nested defs) whose dotted callee or last attribute is in names."""
    root = node_or_fi.node if hasattr(node_or_fi, 'node') else node_or_fi
    out = []
    for n in walk_local_ordered(root):
        if isinstance(n, ast.Call):
            c = callee(n)
            if c in names or method_name(n) in names:
                out.append(n)
    return out


def kwarg(call, name, default=None):
    for k in call.keywords:
        if k.arg == name:
            return k.value
    return default


def arg(call, pos, name=None, default=None):
    """Positional-or-keyword argument of a call."""
    if pos is not None and len(call.args) > pos and not any(isinstance(a, ast.Starred) for a in call.args[:pos + 1]):
        return call.args[pos]
    if name is not None:
        return kwarg(call, name, default)
    return default


def conjuncts(test):
    """Flatten `a and b and c` -> [a, b, c]."""
    if isinstance(test, ast.BoolOp) and isinstance(test.op, ast.And):
        out = []
        for v in test.values:
            out.extend(conjuncts(v))
        return out
    return [test]


def disjuncts(test):
    if isinstance(test, ast.BoolOp) and isinstance(test.op, ast.Or):
        out = []
        for v in test.values:
            out.extend(disjuncts(v))
        return out
    return [test]


_FLIP = {ast.Lt: ast.Gt, ast.Gt: ast.Lt, ast.LtE: ast.GtE, ast.GtE: ast.LtE, ast.Eq: ast.Eq, ast.NotEq: ast.NotEq}
_NEG = {ast.Lt: ast.GtE, ast.Gt: ast.LtE, ast.LtE: ast.Gt, ast.GtE: ast.Lt, ast.Eq: ast.NotEq, ast.NotEq: ast.Eq,
        ast.Is: ast.IsNot, ast.IsNot: ast.Is, ast.In: ast.NotIn, ast.NotIn: ast.In}
_OPSTR = {ast.Lt: '<', ast.Gt: '>', ast.LtE: '<=', ast.GtE: '>=', ast.Eq: '==', ast.NotEq: '!=', ast.Is: 'is',
          ast.IsNot: 'is not', ast.In: 'in', ast.NotIn: 'not in'}


def simple_compare(test):
    """`a OP b` (single comparator), with `not (a OP b)` folded -> (a, opstr, b) or None."""
    neg = False
    while isinstance(test, ast.UnaryOp) and isinstance(test.op, ast.Not):
        neg = not neg
        test = test.operand
    if isinstance(test, ast.Compare) and len(test.ops) == 1:
        op = type(test.ops[0])
        if neg:
            op = _NEG.get(op)
            if op is None:
                return None
        return (test.left, _OPSTR[op], test.comparators[0])
    return None


def chain_compares(test):
    """`a <= b < c` -> [(a,'<=',b),(b,'<',c)] ; single compares too; None if not a Compare."""
    if isinstance(test, ast.Compare):
        out = []
        left = test.left
        for op, right in zip(test.ops, test.comparators):
            out.append((left, _OPSTR[type(op)], right))
            left = right
        return out
    return None


def canon_cmp(a, op, b):
    """Canonical orientation: returns (lo, rel, hi) with rel in {'<','<=','==','!='} as text triple."""
    if op in ('>', '>='):
        a, b = b, a
        op = {'>': '<', '>=': '<='}[op]
    return (a, op, b)


def stores_to(fi, pred):
    """Assignment / augmented-assignment / delete targets satisfying pred(target_node)."""
    out = []
    for n in walk_local_ordered(fi.node):
        tg = []
        if isinstance(n, ast.Assign):
            tg = n.targets
        elif isinstance(n, (ast.AugAssign, ast.AnnAssign)):
            tg = [n.target]
        elif isinstance(n, ast.Delete):
            tg = n.targets
        elif isinstance(n, ast.For):
            tg = [n.target]
        for t in tg:
            for e in ([t] if not isinstance(t, (ast.Tuple, ast.List)) else ast.walk(t)):
                if pred(e):
                    out.append((n, e))
    return out


def subscript_root(node):
    while isinstance(node, (ast.Subscript, ast.Attribute)) and not (isinstance(node, ast.Attribute) and isinstance(node.value, ast.Name)):
        node = node.value
    return node


def names_in(node):
    return {n.id for n in ast.walk(node) if isinstance(n, ast.Name)}


def returns_of(fi):
    return [r for r in fi.returns()]


def enclosing_ifs(fi, node, ifexp=False):
    """[(if_node, branch)] from outermost to innermost; branch is 'body' or 'orelse' (with ifexp=True conditional expressions
    `a if t else b` count as well: only .test is uniform across the two node kinds)."""
    out = []
    child = node
    for a in fi.ancestors(node):
        if ifexp and isinstance(a, ast.IfExp):
            br = 'body' if (child is a.body or _contains(a.body, child)) else ('orelse' if (child is a.orelse or _contains(a.orelse, child)) else 'test')
            out.append((a, br))
        elif isinstance(a, ast.If):
            br = 'body' if any(child is s or _contains(s, child) for s in a.body) else (
                'orelse' if any(child is s or _contains(s, child) for s in a.orelse) else 'test')
            out.append((a, br))
        child = a
    return list(reversed(out))


def _contains(root, node):
    return any(n is node for n in ast.walk(root))


def contains(root, node):
    return root is node or _contains(root, node)


def dict_keys_written(node):
    """Keys of a `dict(k=v, ...)` call or a `{...}` literal -> {key: value node}."""
    if isinstance(node, ast.Call) and dotted(node.func) in ('dict', 'Bunch') and not node.args:
        return {k.arg: k.value for k in node.keywords if k.arg}
    if isinstance(node, ast.Dict):
        out = {}
        for k, v in zip(node.keys, node.values):
            if isinstance(k, ast.Constant):
                out[k.value] = v
        return out
    return None


def const_values(fi, e):
    """Possible constant values of an expression: a literal, a local with a single constant definition, or a loop / comprehension variable ranging over a
    literal tuple / list of constants. [] when unknown."""
    v = const_value(e)
    if v is not None or (isinstance(e, ast.Constant) and e.value is None):
        return [v]
    if isinstance(e, ast.Name):
        out = []
        for n in ast.walk(fi.node):
            tgt = it = None
            if isinstance(n, ast.For):
                tgt, it = n.target, n.iter
            elif isinstance(n, ast.comprehension):
                tgt, it = n.target, n.iter
            elif isinstance(n, ast.Assign) and len(n.targets) == 1:
                if isinstance(n.targets[0], ast.Name) and n.targets[0].id == e.id and const_value(n.value) is not None:
                    out.append(const_value(n.value))
                continue
            if tgt is not None and isinstance(tgt, ast.Name) and tgt.id == e.id and isinstance(it, (ast.Tuple, ast.List)):
                vals = [const_value(x) for x in it.elts]
                if all(x is not None for x in vals):
                    out.extend(vals)
        return out
    return []


def memo_sites(fi):
    """Memoisation of a function's result in storage that outlives the call. -> [(cache_expr_text, key_node, return_node, missing_params)] for every
    early `return CACHE[key]` / `return CACHE.get(key)` guarded by `key in CACHE` (or a `try ... except KeyError`), where CACHE is derived from the
    receiver (`self.x`, `self.__dict__[...]`, `self.__dict__.setdefault(..)`), a module global or a function attribute. `missing_params` are the
    parameters (receiver excluded) that the rest of the body reads but the key does not mention: a later call that differs only in one of them is
    answered with the first call's result."""
    import ast as _ast
    from .front import unparse as _un
    self_name = getattr(fi, 'self_name', None)
    params = [p for p in list(fi.params) + list(getattr(fi, 'kwonly', [])) if p != self_name]
    persistent = {}

    def is_persistent(e, depth=0):
        if depth > 4:
            return False
        if isinstance(e, _ast.Attribute):
            return (isinstance(e.value, _ast.Name) and e.value.id == self_name) or is_persistent(e.value, depth + 1)
        if isinstance(e, _ast.Subscript):
            return is_persistent(e.value, depth + 1)
        if isinstance(e, _ast.Call) and isinstance(e.func, _ast.Attribute) and e.func.attr in ('setdefault', 'get'):
            return is_persistent(e.func.value, depth + 1)
        if isinstance(e, _ast.Call) and isinstance(e.func, _ast.Name) and e.func.id == 'getattr' and e.args:
            return isinstance(e.args[0], _ast.Name) and e.args[0].id == self_name
        if isinstance(e, _ast.Name):
            if e.id in persistent:
                return persistent[e.id]
            if e.id in fi.module.consts and e.id not in fi.defs():
                return True
            d = fi.unique_def(e.id)
            persistent[e.id] = False
            r = d is not None and is_persistent(d, depth + 1)
            persistent[e.id] = r
            return r
        return False
    out = []
    for r in fi.returns():
        v = r.value
        if v is None:
            continue
        cache = key = None
        if isinstance(v, _ast.Subscript) and is_persistent(v.value):
            cache, key = v.value, v.slice
        elif isinstance(v, _ast.Call) and isinstance(v.func, _ast.Attribute) and v.func.attr == 'get' and v.args and is_persistent(v.func.value):
            cache, key = v.func.value, v.args[0]
        if cache is None:
            continue
        # only EARLY returns: guarded by a membership test of the same cache (the final `return cache[k]` after the store is not a lookup)
        guarded = False
        for if_, br in enclosing_ifs(fi, r):
            for n in _ast.walk(if_.test):
                if isinstance(n, _ast.Compare) and len(n.ops) == 1 and isinstance(n.ops[0], (_ast.In, _ast.NotIn)) and _un(n.comparators[0]) == _un(cache):
                    guarded = True
                if isinstance(n, _ast.Compare) and any(isinstance(o, (_ast.IsNot, _ast.Is)) for o in n.ops):
                    guarded = guarded or any(_un(cache) in _un(x) for x in [n.left] + n.comparators)
        for a in fi.ancestors(r):
            if isinstance(a, _ast.Try) and any(h.type is not None and 'KeyError' in _un(h.type) for h in a.handlers) and any(contains(s, r) for s in a.body):
                guarded = True
        if not guarded:
            # `if k not in C: C[k] = compute(..)` followed by an unconditional `return C[k]`: the same memoisation, filled on demand
            fills = [a for a in fi.nodes(_ast.Assign) if isinstance(a.targets[0], _ast.Subscript) and _un(a.targets[0].value) == _un(cache) and _un(a.targets[0].slice) == _un(key) and
                     any(isinstance(n, _ast.Compare) and len(n.ops) == 1 and isinstance(n.ops[0], (_ast.In, _ast.NotIn)) and _un(n.comparators[0]) == _un(cache)
                         for if_, br in enclosing_ifs(fi, a) for n in _ast.walk(if_.test))]
            if not fills:
                continue
        key_names = {n.id for n in _ast.walk(key) if isinstance(n, _ast.Name)}
        # names the key is built from, one level of local definitions
        for nm in list(key_names):
            d = fi.unique_def(nm)
            if d is not None:
                key_names |= {n.id for n in _ast.walk(d) if isinstance(n, _ast.Name)}
        used = set()
        for n in _ast.walk(fi.node):
            if isinstance(n, _ast.Name) and isinstance(n.ctx, _ast.Load) and n.id in params:
                used.add(n.id)
        missing = sorted(p for p in used if p not in key_names)
        out.append((_un(cache), key, r, missing))
    # ---- an INTERMEDIATE value memoised on demand: `v = C.get(k)` / `if k not in C` ... `v = C[k] = compute(args)`. The memoised value is a function of what
    # `compute(args)` reads; every parameter it depends on (through local definitions) must be part of the key.
    done = {c_ for c_, _k, _r, _m in out}

    def deps(e):
        names = {n.id for n in _ast.walk(e) if isinstance(n, _ast.Name) and isinstance(n.ctx, _ast.Load)}
        work = list(names)
        while work:
            nm = work.pop()
            for k_, v_, _st, _ex in fi.defs().get(nm, []):
                if v_ is None or not isinstance(v_, _ast.AST):
                    continue
                for n in _ast.walk(v_):
                    if isinstance(n, _ast.Name) and isinstance(n.ctx, _ast.Load) and n.id not in names:
                        names.add(n.id)
                        work.append(n.id)
        return names
    for a in fi.nodes(_ast.Assign):
        subs = [t for t in a.targets if isinstance(t, _ast.Subscript) and is_persistent(t.value)]
        if not subs or _un(subs[0].value) in done:
            continue
        cache, key = subs[0].value, subs[0].slice
        guarded = False
        for if_, br in enclosing_ifs(fi, a):
            for n in _ast.walk(if_.test):
                if isinstance(n, _ast.Compare) and len(n.ops) == 1 and isinstance(n.ops[0], (_ast.In, _ast.NotIn)) and _un(n.comparators[0]) == _un(cache):
                    guarded = True
                if isinstance(n, _ast.Name) and any(isinstance(v_, _ast.AST) and k_ == 'assign' and (
                        (isinstance(v_, _ast.Call) and isinstance(v_.func, _ast.Attribute) and v_.func.attr == 'get' and _un(v_.func.value) == _un(cache)) or
                        (isinstance(v_, _ast.Subscript) and _un(v_.value) == _un(cache))) for k_, v_, _st, _ex in fi.defs().get(n.id, [])):
                    guarded = True
        if not guarded:
            continue
        val_deps = deps(a.value)
        key_deps = deps(key)
        missing = sorted(p_ for p_ in params if p_ in val_deps and p_ not in key_deps)
        out.append((_un(cache), key, a, missing))
    return out


def dropped_accumulations(fi):
    """Accumulators that lose what they hold: a name defined before a loop, added to inside the loop (`acc += v`, `acc[...] += v`) and, in a conditional branch of the same
    loop, plainly re-assigned from a value that does not mention it, with no earlier statement of that branch reading it (the correct "grow the table" idiom first folds the
    old contents into the new value: `new[:len(acc)] += acc; acc = new`). -> [(loop, assignment, name)]"""
    import ast as _ast
    out = []
    for lp in [n for n in _ast.walk(fi.node) if isinstance(n, (_ast.For, _ast.While))]:
        inside = {id(n) for n in _ast.walk(lp)}
        aug = set()
        for n in _ast.walk(lp):
            if isinstance(n, _ast.AugAssign):
                t = n.target
                while isinstance(t, _ast.Subscript):
                    t = t.value
                if isinstance(t, _ast.Name):
                    aug.add(t.id)
        for nm in aug:
            if not any(id(st) not in inside for k_, v_, st, ex in fi.defs().get(nm, []) if st is not None):
                continue
            for if_ in [n for n in _ast.walk(lp) if isinstance(n, _ast.If)]:
                for block in (if_.body, if_.orelse):
                    for k, st in enumerate(block):
                        if isinstance(st, _ast.Assign) and len(st.targets) == 1 and isinstance(st.targets[0], _ast.Name) and st.targets[0].id == nm:
                            reads_rhs = any(isinstance(n, _ast.Name) and n.id == nm for n in _ast.walk(st.value))
                            reads_before = any(isinstance(n, _ast.Name) and n.id == nm and isinstance(n.ctx, _ast.Load) for prev in block[:k] for n in _ast.walk(prev))
                            if not reads_rhs and not reads_before:
                                out.append((lp, st, nm))
    return out
